#!/bin/bash
# Determinism self-test of both engines: the same seeds in separate processes at GOMAXPROCS 1/4/16
# must give byte-identical event logs (hashed) / schedule hashes. A divergence is harness trouble (exit 2).
set -u
export GOFLAGS=-mod=mod GOPROXY=off GOSUMDB=off GOTOOLCHAIN=local
VERIF=$(dirname "$(readlink -f "$0")")
D=$(mktemp -d "${TMPDIR:-/tmp}/verif-self-XXXXXX"); trap 'rm -rf "$D"' EXIT
(cd $VERIF/sim && go build -o $VERIF/bin/vcheck ./cmd/vcheck) || exit 2
fail=0
for P in C01 C07 C15 C17; do
  for G in 1 4 16; do for R in a b; do
    GOMAXPROCS=$G $VERIF/bin/vcheck -worker -prop $P -from 5000 -to 5400 -out $D/$P-$G-$R.json -hashes &
  done; done
done
wait
python3 - "$D" <<'PY'
import json,sys,glob,os
d=sys.argv[1]; bad=0; n=0
for p in ("C01","C07","C15","C17"):
    ref=None
    for f in sorted(glob.glob(os.path.join(d,p+"-*.json"))):
        h=json.load(open(f))["run_hashes"]; n+=len(h)
        if ref is None: ref=h
        elif h!=ref:
            bad+=sum(1 for k in ref if ref[k]!=h.get(k)); print("DIVERGENCE", f)
print(f"world engine: {n} run hashes compared, {bad} divergences")
sys.exit(2 if bad else 0)
PY
[ $? -ne 0 ] && fail=1
# concurrency engine
(cd $VERIF/conc/instrument && go build -o $VERIF/bin/instrument .) || exit 2
$VERIF/bin/instrument "${VERIF_REPO:-/repo}" $D/src $VERIF/conc/rt $VERIF/conc/harness >/dev/null || exit 2
(cd $D/src && go build -o $D/concrun ./zz_sim/concrun && go build -race -o $D/concrun-race ./zz_sim/concrun) || exit 2
for G in 1 4 16; do
  GOMAXPROCS=$G $D/concrun -from 7000 -to 8000 -out $D/cp$G.json -hashes &
  GOMAXPROCS=$G $D/concrun-race -from 7000 -to 8000 -out $D/cr$G.json -hashes &
  GOMAXPROCS=$G $D/concrun -mode parse -from 9000 -to 9400 -out $D/pp$G.json -hashes &
  GOMAXPROCS=$G $D/concrun-race -mode parse -from 9000 -to 9400 -out $D/pr$G.json -hashes &
done
wait
python3 - "$D" <<'PY'
import json,sys,glob,os
d=sys.argv[1]; bad=0; n=0
for pat in ("c[pr]*.json", "p[pr]*.json"):
    ref=None
    for f in sorted(glob.glob(os.path.join(d,pat))):
        h=json.load(open(f))["hashes"]; n+=len(h)
        if ref is None: ref=h
        elif h!=ref: bad+=sum(1 for k in ref if ref[k]!=h.get(k)); print("DIVERGENCE", f)
print(f"concurrency engine: {n} schedule hashes compared (plain and -race, GOMAXPROCS 1/4/16), {bad} divergences")
sys.exit(2 if bad else 0)
PY
[ $? -ne 0 ] && fail=1
[ $fail -ne 0 ] && { echo "SELFTEST FAILED (exit 2)"; exit 2; }
echo "selftest ok"
