// Package gen is the seeded scheduler and the client/contract/system-contract generators.
// Every choice comes from one PRNG; what it produces are concrete events, so a trace replays
// without the generator.
package gen

import (
	"bytes"
	"encoding/hex"
	"math/big"
	"math/rand"
	"sort"
	"strings"

	"verifsim/spec"
	"verifsim/world"
)

// Profile is a weight table: event kinds ("ev:*"), transaction families ("tx:*"),
// system-contract actions ("sc:*"), probes ("probe:*") and fault knobs ("p:*" probabilities).
type Profile map[string]float64

// Base is the default mix; property profiles override entries.
func Base() Profile {
	return Profile{
		"ev:tx": 40, "ev:deliver": 30, "ev:sc": 12, "ev:epoch": 1, "ev:sched": 1, "ev:restart": 0.5, "ev:redeliver": 0.5, "ev:corrupt": 0.5, "ev:upgrade": 0.6,
		"tx:transfer": 10, "tx:nft": 10, "tx:multi": 10, "tx:mint": 4, "tx:lburn": 3, "tx:burn": 2, "tx:create": 8, "tx:addqty": 3, "tx:nftburn": 3,
		"tx:adduri": 2, "tx:updattr": 2, "tx:skv": 3, "tx:owner": 2, "tx:claim": 2, "tx:username": 2, "tx:adversarial": 6, "tx:forged": 3,
		"sc:issue": 6, "sc:setrole": 8, "sc:unsetrole": 2, "sc:freeze": 3, "sc:unfreeze": 3, "sc:wipe": 1.5, "sc:pause": 1.5, "sc:unpause": 2.5, "sc:handover": 3, "sc:drop": 3, "sc:setrole-again": 0.4, "sc:forge-control": 1.2,
		"probe:faults": 0.02, "probe:gas": 0.02, "probe:double": 0.02,
		"p:fault": 0.02, "p:adv-amount": 0.25, "p:adv-token": 0.08, "p:adv-dest": 0.06, "p:adv-gas": 0.12, "p:call": 0.3, "p:contract-caller": 0.3,
		"p:epoch-regress": 0.3, "p:sched-invalid": 0.35,
	}
}

// With returns a copy with overrides.
func (p Profile) With(kv map[string]float64) Profile {
	c := Profile{}
	for k, v := range p {
		c[k] = v
	}
	for k, v := range kv {
		c[k] = v
	}
	return c
}

// Gen drives one run.
type Gen struct {
	R    *rand.Rand
	W    *world.World
	P    Profile
	Step int
	Boot int // bootstrap steps: system-contract heavy
	// Focus: for a few steps after a configuration change (contract upgrade) traffic is biased
	// towards the address it concerns, so that the change meets operations in flight around it
	Focus    []byte
	FocusTTL int
}

// Swarm perturbs a profile for one run: every weight is scaled by a factor drawn per run and a
// random subset of kinds is switched off.
func Swarm(r *rand.Rand, p Profile) Profile {
	c := Profile{}
	keys := make([]string, 0, len(p))
	for k := range p {
		keys = append(keys, k)
	}
	sort.Strings(keys)
	for _, k := range keys {
		v := p[k]
		if strings.HasPrefix(k, "p:") {
			f := []float64{0.5, 1, 1, 2}[r.Intn(4)]
			v *= f
			if v > 0.9 {
				v = 0.9
			}
		} else if !strings.HasPrefix(k, "ev:") {
			f := []float64{0, 0.3, 1, 1, 1, 3}[r.Intn(6)]
			v *= f
		} else {
			f := []float64{0.5, 1, 1, 2}[r.Intn(4)]
			v *= f
		}
		c[k] = v
	}
	return c
}

func (g *Gen) pick(prefix string) string {
	keys := make([]string, 0)
	for k := range g.P {
		if strings.HasPrefix(k, prefix) && g.P[k] > 0 {
			keys = append(keys, k)
		}
	}
	sort.Strings(keys)
	total := 0.0
	for _, k := range keys {
		total += g.P[k]
	}
	if total == 0 {
		return ""
	}
	x := g.R.Float64() * total
	for _, k := range keys {
		x -= g.P[k]
		if x < 0 {
			return k[len(prefix):]
		}
	}
	return keys[len(keys)-1][len(prefix):]
}

func (g *Gen) chance(key string) bool { return g.R.Float64() < g.P[key] }

// Holding is one decoded token entry of the current world.
type Holding struct {
	Addr  []byte
	Token []byte
	Nonce uint64
	Value *big.Int
	Key   string
	Tok   *spec.Token
}

// Holdings scans the world for token entries (system account excluded).
func (g *Gen) Holdings() []Holding {
	var out []Holding
	for _, nd := range g.W.Nodes {
		for _, a := range nd.Store.SortedAddrs() {
			if a == string(spec.SystemAccount) {
				continue
			}
			acc := nd.Store.Accts[a]
			for _, k := range acc.SortedKeys() {
				if !strings.HasPrefix(k, spec.TokenPrefix) {
					continue
				}
				t, err := spec.DecodeToken(acc.Storage[k])
				if err != nil || t.Value == nil {
					continue
				}
				rest := k[len(spec.TokenPrefix):]
				nonce := uint64(0)
				tok := []byte(rest)
				if t.Meta != nil {
					nonce = t.Meta.Nonce
					nb := spec.NonceBytes(nonce)
					if len(rest) > len(nb) {
						tok = []byte(rest[:len(rest)-len(nb)])
					}
				}
				out = append(out, Holding{Addr: []byte(a), Token: tok, Nonce: nonce, Value: t.Value, Key: k, Tok: t})
			}
		}
	}
	return out
}

// RoleHolders lists (address, token) pairs whose stored role list holds the role.
func (g *Gen) RoleHolders(role string) [][2][]byte {
	var out [][2][]byte
	for _, nd := range g.W.Nodes {
		for _, a := range nd.Store.SortedAddrs() {
			acc := nd.Store.Accts[a]
			for _, k := range acc.SortedKeys() {
				if !strings.HasPrefix(k, spec.RolePrefix) {
					continue
				}
				r, err := spec.DecodeRoles(acc.Storage[k])
				if err != nil {
					continue
				}
				for _, x := range r.Roles {
					if string(x) == role {
						out = append(out, [2][]byte{[]byte(a), []byte(k[len(spec.RolePrefix):])})
					}
				}
			}
		}
	}
	return out
}

func (g *Gen) allAccounts() [][]byte {
	var out [][]byte
	out = append(out, g.W.U.Users...)
	out = append(out, g.W.U.Contracts...)
	return out
}

func (g *Gen) anyAccount() []byte {
	a := g.allAccounts()
	return a[g.R.Intn(len(a))]
}

func (g *Gen) anyUser() []byte { return g.W.U.Users[g.R.Intn(len(g.W.U.Users))] }

func (g *Gen) anyToken() *world.TokenInfo { return g.W.U.Tokens[g.R.Intn(len(g.W.U.Tokens))] }

// advDest draws from the adversarial address pool.
func (g *Gen) advDest(self []byte) []byte {
	switch g.R.Intn(8) {
	case 0:
		return append([]byte{}, self...)
	case 1:
		return append([]byte{}, spec.ESDTSystemSC...)
	case 2:
		return g.W.U.MetaAddrs[g.R.Intn(len(g.W.U.MetaAddrs))]
	case 3:
		return make([]byte, 0)
	case 4:
		return append([]byte{}, self[:31]...)
	case 5:
		return append(append([]byte{}, self...), byte(g.R.Intn(int(g.W.Cfg.NumShards))))
	case 6:
		// a fresh address nobody has used
		a := world.UserAddr(60+g.R.Intn(4), uint32(g.R.Intn(int(g.W.Cfg.NumShards))))
		return a
	}
	if len(g.W.U.DNS) == 0 {
		return g.W.U.MetaAddrs[0]
	}
	return g.W.U.DNS[0]
}

func (g *Gen) dest(self []byte) []byte {
	if g.FocusTTL > 0 && len(g.Focus) == 32 && !bytes.Equal(g.Focus, self) && g.R.Intn(3) != 0 {
		return g.Focus
	}
	if g.chance("p:adv-dest") {
		return g.advDest(self)
	}
	for i := 0; i < 8; i++ {
		d := g.anyAccount()
		if !bytes.Equal(d, self) {
			return d
		}
	}
	return g.anyAccount()
}

var two64 = new(big.Int).Lsh(big.NewInt(1), 64)

// amount draws a quantity relative to a holding.
func (g *Gen) amount(h *big.Int) []byte {
	if h == nil {
		h = big.NewInt(0)
	}
	var v *big.Int
	if !g.chance("p:adv-amount") {
		switch g.R.Intn(5) {
		case 0:
			v = big.NewInt(1)
		case 1:
			v = new(big.Int).Set(h)
		case 2:
			v = new(big.Int).Rsh(h, 1)
		case 3:
			v = new(big.Int).Sub(h, big.NewInt(1))
		default:
			if h.Sign() > 0 && h.BitLen() < 62 {
				v = big.NewInt(1 + g.R.Int63n(h.Int64()))
			} else {
				v = big.NewInt(1)
			}
		}
		if v.Sign() <= 0 {
			v = big.NewInt(1)
		}
		return v.Bytes()
	}
	if g.R.Intn(4) == 0 {
		// byte-length and word boundaries
		exp := []uint{8, 16, 32, 56, 63, 64, 128}[g.R.Intn(7)]
		v := new(big.Int).Lsh(big.NewInt(1), exp)
		switch g.R.Intn(3) {
		case 0:
			v.Sub(v, big.NewInt(1))
		case 1:
			v.Add(v, big.NewInt(1))
		}
		return v.Bytes()
	}
	if g.R.Intn(8) == 0 {
		// numbers whose big-endian bytes happen to be a well-formed encoded token (field 2 = amount,
		// optionally field 1 = type before it): a reader that guesses "number or payload?" from the
		// bytes gets these wrong
		shaped := [][]byte{
			{0x12, 0x02, 0x00, 0x05},
			{0x08, 0x01, 0x12, 0x02, 0x00, 0x07},
			{0x12, 0x01, 0x00},
			{0x12, 0x03, 0x00, 0x01, 0x00},
			{0x12, 0x02, 0x00, byte(1 + g.R.Intn(255))},
			{0x0a, 0x00},
		}
		return append([]byte{}, shaped[g.R.Intn(len(shaped))]...)
	}
	if g.R.Intn(10) == 0 {
		// very long numbers (the codec has no bound): 512/513 bytes, 1 KB, 2000 bytes
		b := make([]byte, []int{512, 513, 1024, 1025, 2000}[g.R.Intn(5)])
		b[0] = byte(1 + g.R.Intn(255))
		b[len(b)-1] = byte(g.R.Intn(256))
		return b
	}
	switch g.R.Intn(9) {
	case 0:
		return []byte{}
	case 1:
		return []byte{0}
	case 2:
		return new(big.Int).Add(h, big.NewInt(1)).Bytes()
	case 3:
		return new(big.Int).Sub(two64, big.NewInt(1)).Bytes()
	case 4:
		return two64.Bytes()
	case 5:
		b := make([]byte, 100)
		b[0] = 1
		return b
	case 6:
		b := make([]byte, 101)
		b[0] = 1
		return b
	case 7:
		// leading-zero encoding of a plausible value
		v = new(big.Int).Set(h)
		if v.Sign() == 0 {
			v = big.NewInt(1)
		}
		return append([]byte{0, 0}, v.Bytes()...)
	}
	return new(big.Int).Add(h, two64).Bytes()
}

// tokenID draws an identifier: the real one, or one from the adversarial pool derived from it.
func (g *Gen) tokenID(real []byte, nonce uint64) ([]byte, []byte) {
	nb := spec.NonceBytes(nonce)
	if !g.chance("p:adv-token") {
		return real, nb
	}
	full := append(append([]byte{}, real...), nb...)
	switch g.R.Intn(8) {
	case 0:
		return []byte{}, nb
	case 1:
		return real[:1], nb
	case 2:
		// split the key somewhere else: token prefix + "nonce" spelling the rest
		if len(full) > 2 {
			cut := 1 + g.R.Intn(len(full)-1)
			if len(full)-cut <= 8 {
				return full[:cut], full[cut:]
			}
			cut = len(full) - 1 - g.R.Intn(4)
			return full[:cut], full[cut:]
		}
	case 3:
		// the whole key as identifier, nonce 0
		return full, []byte{}
	case 4:
		// identifier plus bytes that spell a nonce
		return append(append([]byte{}, real...), 1), []byte{1}
	case 5:
		// another issued token
		return g.anyToken().ID, nb
	case 6:
		return append(append([]byte{}, real...), '0'), nb
	}
	return real, append([]byte{0}, nb...)
}

func (g *Gen) gas(nd *world.Node, costName string, extra uint64) uint64 {
	cost := nd.Sched.BuiltIn[costName] + extra
	if !g.chance("p:adv-gas") {
		return 5_000_000 + uint64(g.R.Intn(1000))
	}
	switch g.R.Intn(6) {
	case 0:
		return 0
	case 1:
		if cost > 0 {
			return cost - 1
		}
	case 2:
		return cost
	case 3:
		return cost + 1
	case 4:
		return ^uint64(0)
	}
	return cost + uint64(g.R.Intn(2000))
}

func (g *Gen) callTypeFor(caller, dst []byte) int {
	if !spec.IsContract(caller) {
		return spec.CallDirect
	}
	n := g.W.Cfg.NumShards
	if world.ShardOf(caller, n) != world.ShardOf(dst, n) && g.W.Nodes[0].Pay.StateOf(caller) != world.Payable {
		// world assumption: a contract that is not payable sends cross-shard only through
		// asynchronous calls (its refund comes back as a callback)
		return spec.CallAsync
	}
	if g.R.Intn(12) == 0 {
		// call types this library does not know (the type is an open integer; a newer VM may send
		// others): nothing is said about them, so they carry no exemption
		return []int{4, 5, 17, 255, -1}[g.R.Intn(5)]
	}
	return g.R.Intn(4)
}

// attached draws an optional attached contract call.
func (g *Gen) attached(dst []byte) [][]byte {
	if !g.chance("p:call") || g.FocusTTL > 0 && g.R.Intn(4) != 0 {
		return nil
	}
	names := []string{"accept", "deposit", "f", "ESDTTransfer", "ESDTLocalMint", "callBack"}
	out := [][]byte{[]byte(names[g.R.Intn(len(names))])}
	for i := g.R.Intn(3); i > 0; i-- {
		out = append(out, []byte{byte(g.R.Intn(256)), byte(i)})
	}
	if g.R.Intn(6) == 0 {
		out = append(out, []byte{})
	}
	return out
}

// build encodes a transaction with the repository's own tx-data builder and checks the
// builder/parser round trip on the spot (C12).
func (g *Gen) build(fn string, args [][]byte) (string, []string) {
	ops := make([]string, len(args))
	for i, a := range args {
		minimal := len(a) == 0 || a[0] != 0
		switch k := g.R.Intn(6); {
		case k == 0 && minimal && (len(a) <= 7 || len(a) == 8 && a[0] < 0x80):
			ops[i] = "int64"
		case k == 1 && minimal && len(a) <= 3:
			ops[i] = "int"
		case k == 2 && minimal:
			ops[i] = "bigint"
		case k == 3 && len(a) == 1:
			ops[i] = "byte"
		case k == 4:
			ops[i] = "str"
		default:
			ops[i] = "bytes"
		}
	}
	if len(ops) > 0 && g.R.Intn(8) == 0 {
		ops[len(ops)-1] = "setlast"
	}
	if len(ops) > 0 && g.R.Intn(10) == 0 {
		ops[0] = "setfirst"
	}
	if g.R.Intn(10) == 0 {
		ops = append(ops, "reuse")
	}
	if g.R.Intn(10) == 0 {
		ops = append(ops, "two")
	}
	if (fn == spec.FnESDTTransfer || fn == spec.FnBurn || fn == spec.FnESDTNFTTransfer) && g.R.Intn(4) == 0 {
		ops = append(ops, "helper") // TransferESDT / TransferESDTNFT / BurnESDT for the leading arguments
	}
	// the data string a client would send is the documented encoding; Apply replays the builder
	// calls and compares (so that a builder defect is found by an event that replays)
	return spec.EncodeData(fn, args), ops
}

func (g *Gen) tx(snd, rcv []byte, fn string, args [][]byte, gas uint64, ct int) *world.TxJSON {
	data, ops := g.build(fn, args)
	t := &world.TxJSON{Snd: hex.EncodeToString(snd), Rcv: hex.EncodeToString(rcv), Data: data, Gas: gas, CallType: ct, Fn: fn, Ops: ops}
	for _, a := range args {
		t.Args = append(t.Args, hex.EncodeToString(a))
	}
	if g.R.Intn(60) == 0 {
		t.Value = []string{"5", "5", "-5", "18446744073709551616", "1"}[g.R.Intn(5)]
	}
	if spec.IsContract(snd) && g.R.Intn(15) == 0 {
		// a VM reversing something inside the shard: a contract's own call carrying the
		// return-after-error flag (what the flag waives is the freeze/pause gate, nothing else)
		t.ReturnErr = true // (the call type stays what the world's sending discipline chose)
	}
	if spec.IsContract(snd) && g.R.Intn(3) == 0 {
		t.GasLocked = uint64(g.R.Intn(5000))
		if g.R.Intn(12) == 0 {
			t.GasLocked = []uint64{1 << 63, ^uint64(0), ^uint64(0) - t.Gas, ^uint64(0) - t.Gas + 1}[g.R.Intn(4)]
		}
	}
	return t
}

func (g *Gen) nodeOf(a []byte) *world.Node {
	s := world.ShardOf(a, g.W.Cfg.NumShards)
	if s >= uint32(len(g.W.Nodes)) {
		return g.W.Nodes[0]
	}
	return g.W.Nodes[s]
}

func (g *Gen) pickHolding(filter func(h Holding) bool) *Holding {
	hs := g.Holdings()
	var c []Holding
	for _, h := range hs {
		if filter == nil || filter(h) {
			c = append(c, h)
		}
	}
	if len(c) == 0 {
		return nil
	}
	// prefer contract callers with the configured probability
	if g.chance("p:contract-caller") {
		var cc []Holding
		for _, h := range c {
			if spec.IsContract(h.Addr) {
				cc = append(cc, h)
			}
		}
		if len(cc) > 0 {
			c = cc
		}
	}
	return &c[g.R.Intn(len(c))]
}
