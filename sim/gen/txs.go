package gen

import (
	"bytes"
	"encoding/hex"
	"math/big"
	"sort"
	"strings"

	"verifsim/spec"
	"verifsim/world"
)

func hx(b []byte) string { return hex.EncodeToString(b) }

func (g *Gen) randBytes(max int) []byte {
	n := g.R.Intn(max + 1)
	b := make([]byte, n)
	g.R.Read(b)
	return b
}

// genTx produces one client/contract transaction of the given family (nil when impossible now).
func (g *Gen) genTx(fam string) *world.TxJSON {
	switch fam {
	case "transfer":
		h := g.pickHolding(func(h Holding) bool { return h.Nonce == 0 })
		if h == nil {
			return nil
		}
		dst := g.dest(h.Addr)
		if g.R.Intn(25) == 0 {
			dst = h.Addr
		}
		if len(dst) != 32 {
			dst = g.anyAccount() // a transaction's receiver always is a 32-byte address
		}
		tok, _ := g.tokenID(h.Token, 0)
		args := [][]byte{tok, g.amount(h.Value)}
		args = append(args, g.attached(dst)...)
		return g.tx(h.Addr, dst, spec.FnESDTTransfer, args, g.gas(g.nodeOf(h.Addr), "ESDTTransfer", 0), g.callTypeFor(h.Addr, dst))
	case "nft":
		h := g.pickHolding(func(h Holding) bool { return h.Nonce > 0 })
		if h == nil {
			return nil
		}
		dst := g.dest(h.Addr)
		tok, nb := g.tokenID(h.Token, h.Nonce)
		if g.R.Intn(40) == 0 {
			nb = append([]byte{1}, make([]byte, 8)...) // nine-byte nonce whose low word is 0
			nb[8] = byte(h.Nonce)
		}
		args := [][]byte{tok, nb, g.amount(h.Value), dst}
		args = append(args, g.attached(dst)...)
		return g.tx(h.Addr, h.Addr, spec.FnESDTNFTTransfer, args, g.gas(g.nodeOf(h.Addr), "ESDTNFTTransfer", 3000), g.callTypeFor(h.Addr, dst))
	case "multi":
		hs := g.Holdings()
		if len(hs) == 0 {
			return nil
		}
		first := g.pickHolding(nil)
		var mine []Holding
		for _, h := range hs {
			if bytes.Equal(h.Addr, first.Addr) {
				mine = append(mine, h)
			}
		}
		dst := g.dest(first.Addr)
		n := 1 + g.R.Intn(4)
		if g.R.Intn(3) == 0 {
			n = 1
		}
		if g.R.Intn(250) == 0 && first.Value.Cmp(big.NewInt(400)) > 0 {
			// a very long list (more than 255 entries) of one token, one unit each
			cnt := 254 + g.R.Intn(50)
			if g.R.Intn(3) == 0 {
				// longer still: past 340 entries the emitted message has more than 1024 '@'-separated parts
				cnt = []int{340, 341, 342, 400, 1000, 1365, 1400}[g.R.Intn(7)]
				if first.Value.Cmp(big.NewInt(int64(cnt))) <= 0 {
					cnt = 341
				}
			}
			var items [][]byte
			_, nb := g.tokenID(first.Token, first.Nonce)
			for i := 0; i < cnt; i++ {
				items = append(items, first.Token, nb, []byte{1})
			}
			args := append([][]byte{dst, big.NewInt(int64(cnt)).Bytes()}, items...)
			return g.tx(first.Addr, first.Addr, spec.FnMultiTransfer, args, 4_000_000_000, g.callTypeFor(first.Addr, dst))
		}
		var items [][]byte
		spent := map[string]*big.Int{}
		for i := 0; i < n; i++ {
			h := mine[g.R.Intn(len(mine))]
			left := new(big.Int).Set(h.Value)
			if s, ok := spent[h.Key]; ok {
				left.Sub(left, s)
			}
			if left.Sign() <= 0 && g.R.Intn(4) != 0 {
				continue
			}
			if left.Sign() < 0 {
				left = big.NewInt(0)
			}
			amt := g.amount(left)
			tok, nb := g.tokenID(h.Token, h.Nonce)
			if h.Nonce == 0 && g.R.Intn(2) == 0 {
				nb = []byte{0}
			}
			items = append(items, tok, nb, amt)
			if spent[h.Key] == nil {
				spent[h.Key] = big.NewInt(0)
			}
			spent[h.Key].Add(spent[h.Key], new(big.Int).SetBytes(amt))
		}
		if len(items) == 0 {
			return nil
		}
		cnt := big.NewInt(int64(len(items) / 3)).Bytes()
		if g.R.Intn(20) == 0 {
			cnt = g.advCount(len(items) / 3)
		}
		args := append([][]byte{dst, cnt}, items...)
		args = append(args, g.attached(dst)...)
		gas := g.gas(g.nodeOf(first.Addr), "ESDTNFTMultiTransfer", 0)
		if gas < 1<<62 && gas > 1000 {
			gas = gas*uint64(len(items)/3) + 20000
		}
		return g.tx(first.Addr, first.Addr, spec.FnMultiTransfer, args, gas, g.callTypeFor(first.Addr, dst))
	case "mint", "lburn":
		role, fn, cost := spec.RoleLocalMint, spec.FnLocalMint, "ESDTLocalMint"
		if fam == "lburn" {
			role, fn, cost = spec.RoleLocalBurn, spec.FnLocalBurn, "ESDTLocalBurn"
		}
		who, tok := g.roleOrStranger(role)
		if who == nil {
			return nil
		}
		bal := spec.Balance(spec.ShardState(g.nodeOf(who).Store.Accts), who, tok, 0)
		if fam == "mint" && bal.Sign() == 0 {
			bal = big.NewInt(1000)
		}
		id, _ := g.tokenID(tok, 0)
		return g.tx(who, who, fn, [][]byte{id, g.amount(bal)}, g.gas(g.nodeOf(who), cost, 0), g.callTypeFor(who, who))
	case "burn":
		h := g.pickHolding(func(h Holding) bool { return h.Nonce == 0 })
		if h == nil {
			return nil
		}
		rcv := append([]byte{}, spec.ESDTSystemSC...)
		if g.R.Intn(15) == 0 {
			rcv = g.anyAccount()
		}
		id, _ := g.tokenID(h.Token, 0)
		args := [][]byte{id, g.amount(h.Value)}
		if g.R.Intn(20) == 0 {
			args = append(args, []byte("x"))
		}
		return g.tx(h.Addr, rcv, spec.FnBurn, args, g.gas(g.nodeOf(h.Addr), "ESDTBurn", 0), g.callTypeFor(h.Addr, h.Addr))
	case "create":
		who, tok := g.roleOrStranger(spec.RoleNFTCreate)
		if who == nil {
			return nil
		}
		qty := []byte{1}
		if ti := g.W.Tok(tok); ti != nil && ti.Kind == world.KindSFT || g.R.Intn(10) == 0 {
			qty = g.amount(big.NewInt(int64(2 + g.R.Intn(50))))
		}
		roy := big.NewInt(int64(g.R.Intn(10001))).Bytes()
		switch g.R.Intn(12) {
		case 0:
			roy = big.NewInt(10000).Bytes()
		case 1:
			roy = big.NewInt(10001).Bytes()
		case 2:
			roy = new(big.Int).Add(new(big.Int).Lsh(big.NewInt(1), 32), big.NewInt(1)).Bytes()
		case 3:
			roy = []byte{}
		}
		hash := g.randBytes(6)
		if g.R.Intn(3) == 0 {
			hash = []byte("h")
		}
		args := [][]byte{tok, qty, g.randBytes(8), roy, hash, g.randBytes(20)}
		nuri := 1 + g.R.Intn(3)
		if g.R.Intn(15) == 0 {
			nuri = 0
		}
		for i := 0; i < nuri; i++ {
			args = append(args, g.randBytes(12))
		}
		if g.R.Intn(25) == 0 {
			args[5] = make([]byte, 300)
		}
		if g.R.Intn(300) == 0 {
			args[5] = make([]byte, []int{16383, 16384, 32767, 32768, 40000, 65535, 65536, 65537, 70000}[g.R.Intn(9)]) // one very long field
		}
		extra := uint64(0)
		for _, a := range args {
			extra += uint64(len(a))
		}
		nd := g.nodeOf(who)
		return g.tx(who, who, spec.FnNFTCreate, args, g.gas(nd, "ESDTNFTCreate", extra*nd.Sched.Base["StorePerByte"]), g.callTypeFor(who, who))
	case "addqty", "nftburn", "adduri", "updattr":
		role := map[string]string{"addqty": spec.RoleNFTAddQuantity, "nftburn": spec.RoleNFTBurn, "adduri": spec.RoleNFTAddURI, "updattr": spec.RoleNFTUpdateAttrs}[fam]
		fn := map[string]string{"addqty": spec.FnNFTAddQuantity, "nftburn": spec.FnNFTBurn, "adduri": spec.FnNFTAddURI, "updattr": spec.FnNFTUpdateAttrs}[fam]
		cost := map[string]string{"addqty": "ESDTNFTAddQuantity", "nftburn": "ESDTNFTBurn", "adduri": "ESDTNFTAddURI", "updattr": "ESDTNFTUpdateAttributes"}[fam]
		who, tok := g.roleOrStranger(role)
		if who == nil {
			return nil
		}
		// an entry of that token the caller holds (or any nonce)
		var own []Holding
		for _, h := range g.Holdings() {
			if bytes.Equal(h.Addr, who) && bytes.Equal(h.Token, tok) && h.Nonce > 0 {
				own = append(own, h)
			}
		}
		nonce, val := uint64(1+g.R.Intn(3)), big.NewInt(1)
		var held *spec.Meta // the metadata of the entry the call is aimed at, when the caller holds it
		if len(own) > 0 && g.R.Intn(8) != 0 {
			h := own[g.R.Intn(len(own))]
			nonce, val = h.Nonce, h.Value
			if h.Tok != nil {
				held = h.Tok.Meta
			}
		}
		if tt := g.W.Tok(tok); tt != nil && g.R.Intn(3) == 0 {
			// a nonce for which this account was sent a single-NFT freeze (it may hold only the placeholder)
			for _, k := range sortedKeysBool(tt.Frozen) {
				if len(k) > 33 && k[:32] == string(who) && k[32] == 0 {
					nonce = new(big.Int).SetBytes([]byte(k[33:])).Uint64()
					break
				}
			}
		}
		id, nb := g.tokenID(tok, nonce)
		args := [][]byte{id, nb}
		extra := uint64(0)
		nd := g.nodeOf(who)
		switch fam {
		case "addqty", "nftburn":
			args = append(args, g.amount(val))
		case "adduri":
			for i := 1 + g.R.Intn(2); i > 0; i-- {
				u := g.randBytes(10)
				if held != nil && len(held.URIs) > 0 && g.R.Intn(6) == 0 {
					// a URI the entry already lists
					u = append([]byte{}, held.URIs[g.R.Intn(len(held.URIs))]...)
				}
				args = append(args, u)
				extra += uint64(len(u)) * nd.Sched.Base["StorePerByte"]
			}
		case "updattr":
			u := g.randBytes(24)
			if held != nil && len(held.Attributes) > 0 && g.R.Intn(4) == 0 {
				// the attributes the entry already has: an update that changes nothing is still an update
				// (priced, gated and role-checked like any other)
				u = append([]byte{}, held.Attributes...)
			}
			args = append(args, u)
			extra += uint64(len(u)) * nd.Sched.Base["StorePerByte"]
			if g.R.Intn(20) == 0 {
				args = append(args, []byte{1})
			}
		}
		return g.tx(who, who, fn, args, g.gas(nd, cost, extra), g.callTypeFor(who, who))
	case "skv":
		who := g.anyUser()
		if g.R.Intn(10) == 0 {
			who = g.anyAccount()
		}
		rcv := who
		if g.R.Intn(12) == 0 {
			rcv = g.anyAccount()
		}
		nd := g.nodeOf(who)
		acc := nd.Store.Accts[string(who)]
		n := 1 + g.R.Intn(3)
		var args [][]byte
		extra := uint64(0)
		for i := 0; i < n; i++ {
			k := g.skvKey(who)
			v := g.randBytes(12)
			switch g.R.Intn(6) {
			case 0:
				v = []byte{}
			case 1:
				if acc != nil {
					v = acc.Storage[string(k)] // unchanged value: the no-op shape
				}
			case 2:
				v = make([]byte, 100)
			}
			args = append(args, k, v)
			extra += uint64(len(k)+len(v))*nd.Sched.Base["PersistPerByte"] + uint64(len(v))*nd.Sched.Base["StorePerByte"]
		}
		if g.R.Intn(15) == 0 {
			args = append(args, []byte("odd"))
		}
		gas := g.gas(nd, "SaveKeyValue", extra)
		if g.R.Intn(5) == 0 {
			// exactly below / at the charge of an all-unchanged save
			gas = nd.Sched.BuiltIn["SaveKeyValue"] + uint64(g.R.Intn(3)) - 1
		}
		return g.tx(who, rcv, spec.FnSaveKeyValue, args, gas, g.callTypeFor(who, rcv))
	case "owner", "claim":
		if len(g.W.U.Contracts) == 0 {
			return nil
		}
		c := g.W.U.Contracts[g.R.Intn(len(g.W.U.Contracts))]
		owner := g.nodeOf(c).Store.Accts[string(c)].Owner
		caller := owner
		if g.R.Intn(3) == 0 || len(owner) == 0 {
			caller = g.anyAccount()
		}
		if fam == "owner" {
			no := g.anyAccount()
			if g.R.Intn(15) == 0 {
				no = no[:31]
			}
			return g.tx(caller, c, spec.FnChangeOwner, [][]byte{no}, g.gas(g.nodeOf(caller), "ChangeOwnerAddress", 0), g.callTypeFor(caller, caller))
		}
		var args [][]byte
		if g.R.Intn(10) == 0 {
			args = [][]byte{{1}}
		}
		return g.tx(caller, c, spec.FnClaimRewards, args, g.gas(g.nodeOf(caller), "ClaimDeveloperRewards", 0), g.callTypeFor(caller, caller))
	case "username":
		caller := g.anyAccount()
		if len(g.W.U.DNS) > 0 && g.R.Intn(4) != 0 {
			caller = g.W.U.DNS[g.R.Intn(len(g.W.U.DNS))]
		}
		if g.W.Cfg.HostReusesDNSMap && g.R.Intn(3) == 0 {
			caller = g.W.U.Users[0] // the address the host later put into its own copy of the map
		}
		args := [][]byte{g.randBytes(10)}
		if g.R.Intn(12) == 0 {
			args = append(args, []byte{1})
		}
		target := g.anyUser()
		if acc := g.nodeOf(target).Store.Accts[string(target)]; acc != nil && len(acc.UserName) > 0 && g.R.Intn(3) == 0 {
			// the name the account already has, registered once more
			args[0] = append([]byte{}, acc.UserName...)
		}
		return g.tx(caller, target, spec.FnSetUserName, args, g.gas(g.nodeOf(caller), "SaveUserName", 0), spec.CallDirect)
	case "forged":
		// control functions and destination-side forms called by ordinary accounts
		caller := g.anyAccount()
		t := g.anyToken()
		victim := g.anyAccount()
		var fn string
		var args [][]byte
		rcv := victim
		switch g.R.Intn(9) {
		case 0:
			fn, args = spec.FnFreeze, [][]byte{t.ID}
		case 1:
			fn, args = spec.FnUnFreeze, [][]byte{t.ID}
		case 2:
			fn, args = spec.FnWipe, [][]byte{t.ID}
		case 3:
			fn, args, rcv = spec.FnPause, [][]byte{t.ID}, spec.SystemAccount
		case 4:
			fn, args, rcv = spec.FnUnPause, [][]byte{t.ID}, spec.SystemAccount
		case 5:
			fn, args = spec.FnSetRole, [][]byte{t.ID, []byte(world.RolesForKind(t.Kind)[0])}
			if g.R.Intn(2) == 0 {
				rcv = caller
			}
		case 6:
			fn, args = spec.FnCreateRoleTransfer, [][]byte{t.ID, caller}
			if g.R.Intn(2) == 0 {
				fn, args, rcv = spec.FnCreateRoleTransfer, [][]byte{t.ID, {200}}, caller
			}
		case 7:
			// forged destination-side NFT credit
			p := spec.EncodeToken(&spec.Token{Type: 1, Value: big.NewInt(5), Meta: &spec.Meta{Nonce: 1, Creator: caller, Hash: []byte("h")}})
			fn, args, rcv = spec.FnESDTNFTTransfer, [][]byte{t.ID, {1}, {5}, p}, victim
		default:
			p := spec.EncodeToken(&spec.Token{Type: 1, Value: big.NewInt(5), Meta: &spec.Meta{Nonce: 1, Creator: caller, Hash: []byte("h")}})
			fn, args, rcv = spec.FnMultiTransfer, [][]byte{{2}, t.ID, {1}, p, t.ID, {0}, {9}}, victim
		}
		return g.tx(caller, rcv, fn, args, 5_000_000, g.callTypeFor(caller, caller))
	case "adversarial":
		return g.advTx()
	}
	return nil
}

// advCount draws from the transfer-count pool: zero, wrong small counts, the residues n with
// 3n+c small modulo 2^64, nine-byte values whose low word is small.
func (g *Gen) advCount(real int) []byte {
	third := new(big.Int).Div(new(big.Int).Lsh(big.NewInt(1), 64), big.NewInt(3)) // 0x5555...55
	switch g.R.Intn(9) {
	case 7:
		return big.NewInt(1 << 20).Bytes() // a moderate count: an allocation proportional to it is visible, not fatal
	case 8:
		return big.NewInt(1 << 26).Bytes()
	case 0:
		return []byte{}
	case 1:
		return []byte{0}
	case 2:
		return big.NewInt(int64(real + 1)).Bytes()
	case 3:
		return new(big.Int).Add(third, big.NewInt(1)).Bytes() // 3n+2 = 1 (mod 2^64)... wraps small
	case 4:
		return new(big.Int).Add(third, big.NewInt(int64(1+g.R.Intn(3)))).Bytes()
	case 5:
		b := make([]byte, 9)
		b[0] = 1
		b[8] = byte(real)
		return b
	}
	return new(big.Int).Add(new(big.Int).Mul(third, big.NewInt(2)), big.NewInt(int64(1+g.R.Intn(3)))).Bytes()
}

func (g *Gen) skvKey(who []byte) []byte {
	acc := g.nodeOf(who).Store.Accts[string(who)]
	pool := [][]byte{[]byte("a"), []byte("key"), []byte("ELRON"), []byte("ELROND"), []byte("ELRONDx"), []byte("elrondesdtFUN"), []byte("ELROnD1"),
		[]byte("ELRONDesdt"), []byte("ELRONDnonce"), []byte("ELRONDroleesdt"), {}, []byte("EL"), []byte("xELROND")}
	if acc != nil {
		for _, k := range acc.SortedKeys() {
			pool = append(pool, []byte(k))
		}
	}
	if g.R.Intn(3) == 0 {
		return pool[g.R.Intn(len(pool))]
	}
	return []byte([]string{"k0", "k1", "k2", "data", "cfg"}[g.R.Intn(5)])
}

// roleOrStranger picks an account holding the role (mostly), or one holding other roles / the
// role for another token / nothing.
func (g *Gen) roleOrStranger(role string) ([]byte, []byte) {
	hs := g.RoleHolders(role)
	if len(hs) > 0 && g.R.Intn(5) != 0 {
		h := hs[g.R.Intn(len(hs))]
		return h[0], h[1]
	}
	// a caller holding every role except the required one, or the required role for another token
	t := g.anyToken()
	var who []byte
	if len(hs) > 0 && g.R.Intn(2) == 0 {
		who = hs[g.R.Intn(len(hs))][0]
	} else {
		who = g.anyAccount()
	}
	return who, t.ID
}

// advTx: any function (or an unknown name) with arguments from the adversarial pools.
func (g *Gen) advTx() *world.TxJSON {
	names := append([]string{}, spec.AllFunctions...)
	names = append(names, "ESDTNFTChangeCreateOwner", "transfer", "esdtTransfer")
	fn := names[g.R.Intn(len(names))]
	caller := g.anyAccount()
	rcv := caller
	if g.R.Intn(2) == 0 {
		rcv = g.anyAccount()
	}
	if g.R.Intn(10) == 0 {
		rcv = g.advDest(caller)
	}
	n := g.R.Intn(13)
	var args [][]byte
	hs := g.Holdings()
	for i := 0; i < n; i++ {
		switch g.R.Intn(12) {
		case 0:
			args = append(args, []byte{})
		case 1:
			args = append(args, []byte{0})
		case 2:
			args = append(args, g.anyToken().ID)
		case 3:
			args = append(args, g.anyAccount())
		case 4:
			args = append(args, g.advCount(1+g.R.Intn(3)))
		case 5:
			args = append(args, []byte{byte(1 + g.R.Intn(4))})
		case 6:
			b := make([]byte, 8)
			g.R.Read(b)
			args = append(args, b)
		case 7:
			b := make([]byte, 9)
			g.R.Read(b)
			args = append(args, b)
		case 8:
			args = append(args, bytes.Repeat([]byte{0xff}, 8))
		case 9:
			if len(hs) > 0 {
				h := hs[g.R.Intn(len(hs))]
				args = append(args, g.nodeOf(h.Addr).Store.Accts[string(h.Addr)].Storage[h.Key])
			} else {
				args = append(args, []byte{8, 1, 18, 2, 0, 1})
			}
		case 10:
			if len(hs) > 0 {
				h := hs[g.R.Intn(len(hs))]
				id, nb := g.tokenID(h.Token, h.Nonce)
				args = append(args, id)
				if i+1 < n {
					args = append(args, nb)
					i++
				}
			} else {
				args = append(args, []byte("X"))
			}
		default:
			args = append(args, g.advDest(caller))
		}
	}
	gasPool := []uint64{0, 1, 500, 5_000_000, ^uint64(0)}
	gas := gasPool[g.R.Intn(len(gasPool))]
	ct := g.callTypeFor(caller, caller)
	if spec.IsContract(caller) && g.W.Nodes[0].Pay.StateOf(caller) != world.Payable {
		// the world's sending discipline holds for adversarial calls too: random arguments now and then
		// spell a valid cross-shard transfer (receiver, or a destination among the arguments, on
		// another shard), and a contract that is not payable sends those only through asynchronous
		// calls - its refund could not come back otherwise (C09 forbids what C01 would demand)
		n := g.W.Cfg.NumShards
		cross := world.ShardOf(caller, n) != world.ShardOf(rcv, n)
		for _, a := range args {
			if len(a) == len(caller) && world.ShardOf(caller, n) != world.ShardOf(a, n) {
				cross = true
			}
		}
		if cross {
			ct = spec.CallAsync
		}
	}
	return g.tx(caller, rcv, fn, args, gas, ct)
}

// genSC produces one system-contract action.
func (g *Gen) genSC(op string) *world.SCAction {
	t := g.anyToken()
	a := &world.SCAction{Op: op, Token: hx(t.ID)}
	switch op {
	case "issue":
		var ft []*world.TokenInfo
		for _, x := range g.W.U.Tokens {
			if x.Kind == world.KindFungible {
				ft = append(ft, x)
			}
		}
		if len(ft) == 0 {
			return nil
		}
		t = ft[g.R.Intn(len(ft))]
		a.Token = hx(t.ID)
		a.Addr = hx(g.anyAccount())
		amt := big.NewInt(int64(1 + g.R.Intn(100000)))
		if g.R.Intn(8) == 0 {
			amt = new(big.Int).Lsh(big.NewInt(1), uint(64+g.R.Intn(100)))
		}
		if g.R.Intn(8) == 0 {
			// holdings at byte-length and word boundaries
			amt = new(big.Int).Lsh(big.NewInt(1), []uint{8, 16, 32, 63, 64}[g.R.Intn(5)])
			amt.Add(amt, big.NewInt(int64(g.R.Intn(3)-1)))
		}
		a.Amount = amt.String()
	case "setrole-again":
		var who []string
		for _, addr := range sortedKeysRoles(t.Roles) {
			if len(t.Roles[addr]) > 0 {
				who = append(who, addr)
			}
		}
		if len(who) == 0 {
			return nil
		}
		addr := who[g.R.Intn(len(who))]
		a.Addr = hx([]byte(addr))
		for _, r := range sortedKeysBool(t.Roles[addr]) {
			if g.R.Intn(2) == 0 {
				a.Roles = append(a.Roles, r)
			}
		}
		if len(a.Roles) == 0 {
			a.Roles = sortedKeysBool(t.Roles[addr])[:1]
		}
	case "setrole", "unsetrole":
		a.Addr = hx(g.anyAccount())
		all := world.RolesForKind(t.Kind)
		for _, r := range all {
			if g.R.Intn(2) == 0 {
				a.Roles = append(a.Roles, r)
			}
		}
		if len(a.Roles) == 0 {
			a.Roles = []string{all[g.R.Intn(len(all))]}
		}
		if op == "setrole" && g.R.Intn(6) == 0 {
			// role names this library does not know (later protocol versions define more, e.g.
			// ESDTRoleNFTCreateMultiShard, ESDTTransferRole): names that extend or truncate a known
			// one. A role list is a list of opaque names; holding one of these authorises nothing here
			base := all[g.R.Intn(len(all))]
			extra := []string{base + "MultiShard", base + "2", base[:len(base)-1], "ESDTTransferRole", base + "\x00"}[g.R.Intn(5)]
			a.Roles = append(a.Roles, extra)
			if g.R.Intn(2) == 0 {
				a.Roles = []string{extra} // the unknown name alone: its holder holds no known role
			}
		}
		if op == "unsetrole" {
			// prefer accounts that hold something
			for _, addr := range sortedKeysRoles(t.Roles) {
				if len(t.Roles[addr]) > 0 && g.R.Intn(2) == 0 {
					a.Addr = hx([]byte(addr))
					if held := sortedKeysBool(t.Roles[addr]); g.R.Intn(4) == 0 {
						a.Roles = []string{held[g.R.Intn(len(held))]}
					}
				}
			}
		}
	case "freeze", "unfreeze", "wipe":
		a.Addr = hx(g.anyAccount())
		if hs := g.Holdings(); len(hs) > 0 && g.R.Intn(4) != 0 {
			h := hs[g.R.Intn(len(hs))]
			a.Addr = hx(h.Addr)
			a.Token = hx(h.Token)
			if g.W.Tok(h.Token) == nil {
				a.Token = hx(t.ID)
			} else if h.Nonce > 0 && g.R.Intn(2) == 0 {
				a.Nonce = h.Nonce // one NFT of the holder, by the composed identifier
			}
		}
		if tt := g.W.Tok(unhex(a.Token)); a.Nonce == 0 && tt != nil && tt.Kind != world.KindFungible && g.R.Intn(3) == 0 {
			// a nonce the account may not (or no longer) hold
			if mx := g.W.Ghost.MaxIssued[string(tt.ID)]; mx > 0 {
				a.Nonce = 1 + uint64(g.R.Int63n(int64(mx%1000)+1))
			}
		}
		if op != "freeze" {
			tt := g.W.Tok(unhex(a.Token))
			if tt != nil && g.R.Intn(5) != 0 {
				if fk := sortedKeysBool(tt.Frozen); len(fk) > 0 {
					k := fk[g.R.Intn(len(fk))]
					a.Nonce = 0
					if i := strings.IndexByte(k, 0); i == 32 && len(k) > 33 {
						// a frozen single NFT: "address \x00 nonce bytes"
						a.Nonce = new(big.Int).SetBytes([]byte(k[33:])).Uint64()
						k = k[:32]
					}
					a.Addr = hx([]byte(k))
				}
			}
		}
	case "pause", "unpause":
		a.Nonce = uint64(g.R.Intn(3000)) // selects the form of the system account address
	case "forge-control":
		a.Addr2 = hx(g.W.U.MetaAddrs[g.R.Intn(len(g.W.U.MetaAddrs))])
		a.Addr = hx(g.anyAccount())
		// (not the create-role hand-over: its second leg is by construction open to every remote caller
		// that is not the ESDT system contract - the library cannot authenticate it - so a first-leg
		// shaped message from another metachain contract is read as a second leg by the tree)
		a.Fn = []string{spec.FnFreeze, spec.FnUnFreeze, spec.FnWipe, spec.FnPause, spec.FnUnPause, spec.FnSetRole, spec.FnUnSetRole}[g.R.Intn(7)]
		a.Roles = []string{world.RolesForKind(t.Kind)[g.R.Intn(len(world.RolesForKind(t.Kind)))]}
		a.Payload = hx(g.anyAccount())
		if a.Fn == spec.FnCreateRoleTransfer && t.Creator != "" {
			a.Addr = hx([]byte(t.Creator)) // aimed at the current holder
		}
		if hs := g.Holdings(); len(hs) > 0 && g.R.Intn(2) == 0 {
			h := hs[g.R.Intn(len(hs))]
			if g.W.Tok(h.Token) != nil {
				a.Token, a.Addr = hx(h.Token), hx(h.Addr)
			}
		}
	case "drop":
		// a credit message from the metachain: mostly the ESDT system contract, sometimes another
		// metachain contract (for which no exemption applies)
		caller := append([]byte{}, spec.ESDTSystemSC...)
		if g.R.Intn(3) == 0 {
			caller = g.W.U.MetaAddrs[g.R.Intn(len(g.W.U.MetaAddrs))]
		}
		a.Addr2 = hx(caller)
		a.Addr = hx(g.anyAccount())
		a.CallType = []int{0, 0, 0, 1, 2, 3, 0, 0, 0, 1, 2, 3, 4, 17}[g.R.Intn(14)]
		a.ReturnErr = g.R.Intn(5) == 0
		a.Amount = big.NewInt(int64(1 + g.R.Intn(50))).String()
		hs := g.Holdings()
		var nfts []Holding
		for _, h := range hs {
			if h.Nonce > 0 && g.W.Tok(h.Token) != nil {
				nfts = append(nfts, h)
			}
		}
		if len(nfts) > 0 && g.R.Intn(4) != 0 {
			h := nfts[g.R.Intn(len(nfts))]
			a.Token = hx(h.Token)
			a.Nonce = h.Nonce
			if g.R.Intn(2) == 0 {
				a.Addr = hx(h.Addr) // into an account that holds this very nonce
			}
			meta := spec.CloneMeta(h.Tok.Meta)
			switch g.R.Intn(4) {
			case 0:
				meta.Hash = append([]byte("other-"), meta.Hash...) // different hash under the same token and nonce
				a.Twin = true
				a.Addr = hx(h.Addr)
			case 1:
				meta.URIs = append(meta.URIs, []byte("diverged")) // same hash, diverged URIs
			}
			amt, _ := new(big.Int).SetString(a.Amount, 10)
			a.Payload = hx(spec.EncodeToken(&spec.Token{Type: 1, Value: amt, Meta: meta}))
			a.Fn = []string{spec.FnESDTNFTTransfer, spec.FnMultiTransfer}[g.R.Intn(2)]
		} else {
			var ft []*world.TokenInfo
			for _, x := range g.W.U.Tokens {
				if x.Kind == world.KindFungible {
					ft = append(ft, x)
				}
			}
			if len(ft) == 0 {
				return nil
			}
			a.Token = hx(ft[g.R.Intn(len(ft))].ID)
			a.Fn = []string{spec.FnESDTTransfer, spec.FnMultiTransfer}[g.R.Intn(2)]
		}
	case "handover":
		var cands []*world.TokenInfo
		for _, x := range g.W.U.Tokens {
			if x.Creator != "" && !x.Pending && !x.Lost {
				cands = append(cands, x)
			}
		}
		if len(cands) == 0 {
			return nil
		}
		t = cands[g.R.Intn(len(cands))]
		a.Token = hx(t.ID)
		a.Addr = hx([]byte(t.Creator))
		a.Addr2 = hx(g.anyAccount())
	}
	return a
}

func unhex(s string) []byte {
	b, _ := hex.DecodeString(s)
	return b
}

func sortedKeysRoles(m map[string]map[string]bool) []string {
	out := make([]string, 0, len(m))
	for k := range m {
		out = append(out, k)
	}
	sort.Strings(out)
	return out
}

func sortedKeysBool(m map[string]bool) []string {
	out := make([]string, 0, len(m))
	for k := range m {
		out = append(out, k)
	}
	sort.Strings(out)
	return out
}
