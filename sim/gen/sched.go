package gen

import (
	"strings"
	"verifsim/spec"
	"verifsim/world"
)

// Next draws the next event. It never returns an event it knows to be inapplicable, but Apply
// is the judge of that.
func (g *Gen) Next() world.Event {
	g.Step++
	if g.FocusTTL > 0 {
		g.FocusTTL--
	}
	w := g.W
	n := w.NextN
	for tries := 0; tries < 30; tries++ {
		kind := g.pick("ev:")
		if g.Step <= g.Boot {
			// bootstrap: the system contract issues tokens and roles, deliveries follow
			if g.Step%2 == 1 {
				kind = "sc"
			} else {
				kind = "deliver"
			}
		}
		switch kind {
		case "tx":
			fam := g.pick("tx:")
			t := g.genTx(fam)
			if t == nil {
				continue
			}
			ev := world.Event{N: n, K: "tx", Tx: t}
			return g.wrap(ev)
		case "deliver":
			if len(w.Pool) == 0 {
				continue
			}
			m := w.Pool[g.R.Intn(len(w.Pool))]
			if g.R.Intn(3) == 0 {
				m = w.Pool[0] // oldest first, often
			}
			if g.FocusTTL > 0 && g.R.Intn(3) != 0 {
				for _, pm := range w.Pool {
					if bytesEq(pm.Rcv, g.Focus) {
						m = pm
						break
					}
				}
			}
			ev := world.Event{N: n, K: "deliver", ID: m.ID}
			return g.wrap(ev)
		case "sc":
			op := g.pick("sc:")
			if g.Step <= g.Boot {
				op = []string{"issue", "setrole", "issue", "setrole", "setrole"}[g.R.Intn(5)]
			}
			a := g.genSC(op)
			if a == nil {
				continue
			}
			return world.Event{N: n, K: "sc", SC: a}
		case "epoch":
			sh := uint32(g.R.Intn(len(w.Nodes)))
			cur := w.Nodes[sh].Clock.Current
			e := cur + 1
			if g.chance("p:epoch-regress") {
				switch g.R.Intn(5) {
				case 0:
					e = cur
				case 1:
					if cur > 0 {
						e = cur - 1
					}
				case 2:
					e = 0
				case 3:
					e = cur + uint32(2+g.R.Intn(5))
				case 4:
					e = ^uint32(0) - uint32(g.R.Intn(2))
				}
			}
			// the timestamp that comes with the confirmation: usually growing, sometimes older than the
			// previous one (a roll-back confirms an earlier header), sometimes zero
			ts := int64(w.Nodes[sh].Clock.LastTS) + int64(1+g.R.Intn(600))
			switch g.R.Intn(6) {
			case 0:
				ts = int64(w.Nodes[sh].Clock.LastTS) - int64(1+g.R.Intn(600))
				if ts < 0 {
					ts = 0
				}
			case 1:
				ts = 0
			}
			return world.Event{N: n, K: "epoch", Shard: sh, Epoch: e, PSeed: ts}
		case "sched":
			sh := uint32(g.R.Intn(len(w.Nodes)))
			s := world.RandSchedule(g.R, 1+g.R.Intn(50))
			// a schedule that differs from the one in force in one section only
			switch g.R.Intn(6) {
			case 0, 1:
				cur := w.Nodes[sh].Sched.Clone()
				s.BuiltIn = cur.BuiltIn // only the per-byte (base operation) prices change
			case 2:
				cur := w.Nodes[sh].Sched.Clone()
				s.Base = cur.Base // only the built-in function prices change
			}
			if g.R.Intn(5) == 0 {
				// entries the library does not know (a newer node configuration): still a valid schedule
				s.BuiltIn["ESDTFutureOperation"] = uint64(1 + g.R.Intn(1000))
				s.Base["FuturePerByte"] = uint64(g.R.Intn(3)) // may even be zero: it is not an entry of this library
			}
			if g.R.Intn(7) == 0 {
				// told to function objects directly (all, or a few), not through the factory
				ev := world.Event{N: n, K: "sched", Shard: sh, Sched: &s, Probe: "direct"}
				if g.R.Intn(3) != 0 {
					k := 1 + g.R.Intn(3)
					var names []string
					for i := 0; i < k; i++ {
						names = append(names, spec.AllFunctions[g.R.Intn(len(spec.AllFunctions))])
					}
					ev.ID = strings.Join(names, ",")
				}
				return ev
			}
			if g.R.Intn(7) == 0 {
				// the schedule in force, announced again (nothing may change; in particular a function
				// object that was told another schedule directly is priced by this one again)
				cur := w.Nodes[sh].Sched.Clone()
				return world.Event{N: n, K: "sched", Shard: sh, Sched: &cur}
			}
			if g.chance("p:sched-invalid") {
				switch g.R.Intn(4) {
				case 0:
					s.BuiltIn[world.BuiltInCostNames[g.R.Intn(len(world.BuiltInCostNames))]] = 0
				case 1:
					delete(s.BuiltIn, world.BuiltInCostNames[g.R.Intn(len(world.BuiltInCostNames))])
				case 2:
					s.Base[world.BaseCostNames[g.R.Intn(len(world.BaseCostNames))]] = 0
				case 3:
					delete(s.Base, world.BaseCostNames[g.R.Intn(len(world.BaseCostNames))])
				}
			}
			return world.Event{N: n, K: "sched", Shard: sh, Sched: &s}
		case "restart":
			if g.R.Intn(4) == 0 {
				return world.Event{N: n, K: "hostapi", Shard: uint32(g.R.Intn(len(w.Nodes))), ID: world.RemovableFunctions[g.R.Intn(len(world.RemovableFunctions))]}
			}
			if g.R.Intn(4) == 0 {
				return world.Event{N: n, K: "hostapi", Probe: "replace", Shard: uint32(g.R.Intn(len(w.Nodes))), ID: spec.AllFunctions[g.R.Intn(len(spec.AllFunctions))]}
			}
			ev := world.Event{N: n, K: "restart", Shard: uint32(g.R.Intn(len(w.Nodes)))}
			if g.R.Intn(3) == 0 {
				ev.Probe = "same-factory"
			}
			return ev
		case "redeliver":
			if len(w.Dead) == 0 {
				continue
			}
			ids := make([]string, 0, len(w.Dead))
			for id := range w.Dead {
				ids = append(ids, id)
			}
			sortStrings(ids)
			return world.Event{N: n, K: "redeliver", ID: ids[g.R.Intn(len(ids))]}
		case "upgrade":
			if len(w.U.Contracts) == 0 {
				continue
			}
			c := w.U.Contracts[g.R.Intn(len(w.U.Contracts))]
			if len(w.LastCredited) == 32 && g.R.Intn(3) != 0 {
				c = w.LastCredited // the contract that just accepted a delivery
			}
			g.Focus, g.FocusTTL = c, 6
			// world assumption: a contract that may have cross-shard transfers in flight by direct call
			// stays payable (C09 forbids the refund C01 demands otherwise); so upgrades only change
			// contracts that hold nothing in flight towards them as refunds: approximated by never
			// downgrading a payable contract that has sent anything (callTypeFor reads the table at send time)
			st := g.R.Intn(3)
			if w.Nodes[0].Pay.StateOf(c) == world.Payable && g.R.Intn(3) != 0 {
				st = world.NonPayable
			}
			return world.Event{N: n, K: "upgrade", ID: hexs(c), Epoch: uint32(st)}
		case "corrupt":
			return world.Event{N: n, K: "probe", Probe: "corrupt", PSeed: g.R.Int63()}
		}
	}
	// nothing else possible: a system-contract action always is
	a := g.genSC("setrole")
	return world.Event{N: n, K: "sc", SC: a}
}

// wrap possibly turns a tx/deliver event into a probing one, or attaches a dependency fault.
func (g *Gen) wrap(ev world.Event) world.Event {
	x := g.R.Float64()
	acc := 0.0
	for _, p := range []string{"faults", "gas", "double"} {
		acc += g.P["probe:"+p]
		if x < acc {
			ev.K, ev.Probe = "probe", p
			return ev
		}
	}
	if g.chance("p:fault") {
		kind := []int{world.DepTrieWrite, world.DepLoadAccount, world.DepSaveAccount, world.DepMarshal, world.DepUnmarshal, world.DepIsPayable}[g.R.Intn(6)]
		ev.Fault = []int{kind, 1 + g.R.Intn(3)}
		if (kind == world.DepLoadAccount || kind == world.DepIsPayable || kind == world.DepUnmarshal) && g.R.Intn(3) == 0 {
			ev.Fault = append(ev.Fault, 1)
		}
	}
	return ev
}

func sortStrings(s []string) {
	for i := 1; i < len(s); i++ {
		for j := i; j > 0 && s[j] < s[j-1]; j-- {
			s[j], s[j-1] = s[j-1], s[j]
		}
	}
}

func hexs(b []byte) string {
	const hexd = "0123456789abcdef"
	out := make([]byte, 0, 2*len(b))
	for _, c := range b {
		out = append(out, hexd[c>>4], hexd[c&15])
	}
	return string(out)
}

func bytesEq(a, b []byte) bool {
	if len(a) != len(b) {
		return false
	}
	for i := range a {
		if a[i] != b[i] {
			return false
		}
	}
	return true
}
