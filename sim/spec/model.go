package spec

import (
	"bytes"
	"encoding/hex"
	"fmt"
	"math/big"
	"sort"
	"strings"
)

// model is the working state of the reference contract for one call: expectations layered over
// the decoded pre-state.
type model struct {
	c   *Call
	env *Env
	vd  *Verdict

	tok      map[string]*Token // expected token entries (nil value = absent)
	altMeta  map[string]*Meta  // a second acceptable metadata value (SFT merge: incoming or previous)
	roles    map[string]*Roles
	counter  map[string][]uint64 // acceptable counter values
	raw      map[string][]byte
	pause    map[string]bool
	fields   map[string]*Acct
	gaveUp   string // non-empty: pre-state not interpretable, only the frame is checked
	expOut   []expTransfer
	anyOut   bool // outputs are not modelled for this call
	charges  []uint64
	chargeOK bool
}

type expTransfer struct {
	to       []byte
	sender   []byte
	fn       string
	args     [][]byte // exact expected arguments; nil entries are checked by argCheck
	argCheck map[int]func([]byte) string
	gasAll   bool // carries all remaining gas
	gasZero  bool
	callType int
	ctAny    bool
	gasLock  uint64
	value    *big.Int
	kind     string
	carries  []Carry
	noData   bool
}

// id keys an expectation by (address, storage key); the address is length-prefixed so that an
// address which is a prefix of another cannot be confused with it.
func id(addr []byte, key string) string { return addrPrefix(string(addr)) + key }

func addrPrefix(addr string) string { return string(rune(len(addr))) + addr }

func (m *model) preRaw(addr []byte, key string) []byte {
	if m.c.AbsentKey != "" && key == m.c.AbsentKey && string(addr) == string(m.c.AbsentAddr) {
		// a storage read of this key failed during the call: the interface lets the callee treat a
		// failed read as "no value", never as anything else
		return nil
	}
	a, ok := m.c.Pre[string(addr)]
	if !ok {
		return nil
	}
	return a.Storage[key]
}

func (m *model) getTok(addr []byte, key string) (*Token, error) {
	if t, ok := m.tok[id(addr, key)]; ok {
		return CloneToken(t), nil
	}
	raw := m.preRaw(addr, key)
	if len(raw) == 0 {
		return nil, nil
	}
	t, err := DecodeToken(raw)
	if err != nil {
		return nil, fmt.Errorf("entry %x of %x does not decode: %v", key, addr, err)
	}
	return t, nil
}

func (m *model) setTok(addr []byte, key string, t *Token) {
	// a balance is positive or the entry is absent; only an entry without metadata (a fungible entry,
	// or the placeholder a single-NFT freeze leaves) may stay at zero to carry a frozen flag (C15)
	if t != nil && (t.Value == nil || t.Value.Sign() == 0) && !(isFrozenProps(t.Properties) && t.Meta == nil) {
		t = nil
	}
	m.tok[id(addr, key)] = t
}

func (m *model) getRoles(addr []byte, token []byte) (*Roles, error) {
	k := RoleKey(token)
	if r, ok := m.roles[id(addr, k)]; ok {
		return r, nil
	}
	raw := m.preRaw(addr, k)
	if len(raw) == 0 {
		return nil, nil
	}
	return DecodeRoles(raw)
}

func (m *model) getCounter(addr []byte, token []byte) uint64 {
	k := CounterKey(token)
	if c, ok := m.counter[id(addr, k)]; ok {
		return c[0]
	}
	return lowU64(m.preRaw(addr, k))
}

func (m *model) paused(token []byte) bool {
	raw := m.preRaw(SystemAccount, TokenPrefix+string(token))
	return len(raw) == 2 && raw[0]&1 != 0
}

func (m *model) expFields(addr []byte) *Acct {
	if f, ok := m.fields[string(addr)]; ok {
		return f
	}
	f := m.c.Pre.Get(string(addr)).Clone()
	m.fields[string(addr)] = f
	return f
}

func (m *model) mustFail(props []string, format string, a ...interface{}) {
	if m.vd.MustFail == "" {
		m.vd.MustFail = fmt.Sprintf(format, a...)
		if m.c.OK {
			m.vd.add(props, "forbidden-success", "%s succeeded although %s", m.c.Func, m.vd.MustFail)
		}
	}
}

// gate implements C04: a balance of a frozen entry / paused token must not change.
func (m *model) gate(addr []byte, token []byte, entry *Token, what string) bool {
	if m.c.ReturnErr || bytes.Equal(addr, ESDTSystemSC) {
		return false
	}
	if entry != nil && isFrozenProps(entry.Properties) {
		m.mustFail(P("C04"), "the %s entry of %x for token %q is frozen", what, addr, token)
		return true
	}
	if m.paused(token) {
		m.mustFail(P("C04"), "token %q is paused on shard %d (%s %x)", token, m.env.Shard, what, addr)
		return true
	}
	return false
}

// belongs checks that a stored entry is the entry of (token, nonce): C01/C05/C15 aliasing.
func belongs(t *Token, nonce uint64) bool {
	if nonce == 0 {
		return t.Meta == nil && t.Type == 0
	}
	return t.Meta != nil && t.Meta.Nonce == nonce
}

// debit takes qty of (token, nonce) from addr. Returns the entry as it was before the debit.
func (m *model) debit(addr []byte, token []byte, nonce uint64, qty *big.Int, props []string) *Token {
	key := TokenKey(token, nonce)
	t, err := m.getTok(addr, key)
	if err != nil {
		m.gaveUp = err.Error()
		return nil
	}
	if t == nil {
		if qty.Sign() > 0 {
			m.mustFail(append(P("C02"), props...), "%x holds nothing under (%q,%d) and %v was asked for", addr, token, nonce, qty)
		}
		return nil
	}
	if !belongs(t, nonce) {
		m.mustFail(P("C01", "C05", "C15"), "the entry stored under key %q of %x is not the entry of (%q,%d): %v", key, addr, token, nonce, t)
		return nil
	}
	if t.Value == nil || t.Value.Cmp(qty) < 0 {
		m.mustFail(append(P("C02"), props...), "%x holds %v of (%q,%d) and %v was asked for", addr, t.Value, token, nonce, qty)
		return nil
	}
	if qty.Sign() > 0 && m.gate(addr, token, t, "sender") {
		return nil
	}
	before := CloneToken(t)
	t.Value.Sub(t.Value, qty)
	m.setTok(addr, key, t)
	return before
}

// credit adds qty of (token, nonce) to addr. incoming carries type and metadata for NFTs.
func (m *model) credit(addr []byte, token []byte, nonce uint64, qty *big.Int, incoming *Token) bool {
	key := TokenKey(token, nonce)
	t, err := m.getTok(addr, key)
	if err != nil {
		m.gaveUp = err.Error()
		return false
	}
	// a zero-balance entry without metadata under an NFT key is the placeholder of a single-NFT
	// freeze: it holds nothing, it only says "frozen"
	var carried []byte
	if t != nil && nonce > 0 && t.Meta == nil && (t.Value == nil || t.Value.Sign() == 0) {
		if qty.Sign() > 0 && m.gate(addr, token, t, "destination") {
			return false
		}
		carried = t.Properties
		t = nil
	}
	if t != nil && !belongs(t, nonce) {
		m.mustFail(P("C01", "C05", "C15"), "the destination entry under key %q of %x is not the entry of (%q,%d): %v", key, addr, token, nonce, t)
		return false
	}
	if qty.Sign() > 0 && m.gate(addr, token, t, "destination") {
		return false
	}
	if t == nil {
		t = &Token{Value: big.NewInt(0), Properties: carried}
		if incoming != nil {
			t.Type = incoming.Type
			t.Meta = CloneMeta(incoming.Meta)
		}
		if nonce > 0 && t.Meta == nil {
			m.gaveUp = "credit of an NFT without metadata"
			return false
		}
	} else if nonce > 0 && incoming != nil && incoming.Meta != nil {
		if !bytes.Equal(t.Meta.Hash, incoming.Meta.Hash) {
			m.mustFail(P("C08"), "%x holds (%q,%d) with hash %x and a different hash %x arrives", addr, token, nonce, t.Meta.Hash, incoming.Meta.Hash)
			return false
		}
		if !MetaEq(t.Meta, incoming.Meta) {
			// same hash, diverged URIs/attributes: incoming or previous, never anything else
			m.altMeta[id(addr, key)] = CloneMeta(incoming.Meta)
		}
	}
	if t.Value == nil {
		t.Value = big.NewInt(0)
	}
	t.Value.Add(t.Value, qty)
	m.setTok(addr, key, t)
	return true
}

// payableGate implements C09 for a credit to dst; exempt says whether an exemption applies.
func (m *model) payableGate(dst []byte, exempt bool) bool {
	if exempt || !IsContract(dst) {
		return false
	}
	if st := m.env.PayState(dst); st != 0 {
		m.mustFail(P("C09"), "destination %x is reported non-payable (state %d) and no exemption applies (call type %d, caller %x, %d arguments)", dst, st, m.c.CallType, m.c.Caller, len(m.c.Args))
		return true
	}
	return false
}

func (m *model) payExempt(minArgs int) bool {
	return m.c.CallType == CallCallBack || m.c.CallType == CallTransfEx || bytes.Equal(m.c.Caller, ESDTSystemSC) || len(m.c.Args) > minArgs
}

// ParseData is the oracle's own reading of function@hex@hex...
func ParseData(data string) (string, [][]byte, error) {
	parts := strings.Split(data, "@")
	if len(parts[0]) == 0 {
		return "", nil, fmt.Errorf("empty function")
	}
	args := make([][]byte, 0, len(parts)-1)
	for _, p := range parts[1:] {
		b, err := hex.DecodeString(p)
		if err != nil {
			return "", nil, err
		}
		args = append(args, b)
	}
	return parts[0], args, nil
}

// EncodeData is the documented encoding of a call.
func EncodeData(fn string, args [][]byte) string {
	s := fn
	for _, a := range args {
		s += "@" + hex.EncodeToString(a)
	}
	return s
}

func validCallName(b []byte) bool {
	return len(b) > 0 && !bytes.Contains(b, []byte("@"))
}

// ---- comparison of expectations with the post-state ----

func (m *model) frameProps(key string) []string {
	p := P("C05")
	isTokenKey := strings.HasPrefix(key, TokenPrefix)
	switch m.c.Func {
	case FnESDTTransfer, FnESDTNFTTransfer, FnMultiTransfer:
		if isTokenKey {
			p = append(p, "C01")
		}
	default:
		if isTokenKey {
			p = append(p, "C02")
		}
	}
	if strings.HasPrefix(key, RolePrefix) {
		p = append(p, "C03")
	}
	if strings.HasPrefix(key, NoncePrefix) {
		p = append(p, "C07")
	}
	return p
}

func (m *model) valueProps() []string {
	switch m.c.Func {
	case FnESDTTransfer, FnESDTNFTTransfer, FnMultiTransfer:
		// the transfer parser's report is checked to equal the expectation, so a ledger that moved
		// something else also contradicts C10 ("never told it received more or other tokens than the ledger moved")
		return P("C01", "C10")
	case FnFreeze, FnUnFreeze:
		return P("C04", "C02")
	}
	return P("C02")
}

func sortedRoles(r *Roles) []string {
	var out []string
	if r != nil {
		for _, x := range r.Roles {
			out = append(out, string(x))
		}
	}
	sort.Strings(out)
	return out
}

func (m *model) compareState() {
	c := m.c
	addrs := map[string]bool{}
	for a := range c.Pre {
		addrs[a] = true
	}
	for a := range c.Post {
		addrs[a] = true
	}
	al := make([]string, 0, len(addrs))
	for a := range addrs {
		al = append(al, a)
	}
	sort.Strings(al)
	for _, a := range al {
		pre := c.Pre.Get(a)
		post := c.Post.Get(a)
		keys := map[string]bool{}
		for k := range pre.Storage {
			keys[k] = true
		}
		for k := range post.Storage {
			keys[k] = true
		}
		for k := range m.tok {
			if pre := addrPrefix(a); strings.HasPrefix(k, pre) {
				keys[k[len(pre):]] = true
			}
		}
		kl := make([]string, 0, len(keys))
		for k := range keys {
			kl = append(kl, k)
		}
		sort.Strings(kl)
		for _, k := range kl {
			m.compareKey([]byte(a), k, pre.Storage[k], post.Storage[k])
		}
		want := pre
		if f, ok := m.fields[a]; ok {
			want = f
		}
		if !want.FieldsEqual(post) {
			props := P("C05")
			if !bytes.Equal(want.Owner, post.Owner) || want.DevReward.Cmp(post.DevReward) != 0 || !bytes.Equal(want.UserName, post.UserName) {
				props = append(props, "C03")
			}
			m.vd.add(props, "account-fields", "%s: account %x fields are nonce=%d bal=%v owner=%x name=%q reward=%v meta=%x, expected nonce=%d bal=%v owner=%x name=%q reward=%v meta=%x",
				c.Func, a, post.Nonce, post.Balance, post.Owner, post.UserName, post.DevReward, post.CodeMetadata,
				want.Nonce, want.Balance, want.Owner, want.UserName, want.DevReward, want.CodeMetadata)
		}
	}
}

func (m *model) compareKey(addr []byte, key string, pre, post []byte) {
	i := id(addr, key)
	c := m.c
	if want, ok := m.tok[i]; ok {
		var got *Token
		if len(post) > 0 {
			var err error
			got, err = DecodeToken(post)
			if err != nil {
				m.vd.add(P("C15", "C14"), "undecodable-entry", "%s wrote %x under %q of %x: %v", c.Func, post, key, addr, err)
				return
			}
		}
		m.compareToken(addr, key, want, got)
		return
	}
	if want, ok := m.roles[i]; ok {
		var got *Roles
		if len(post) > 0 {
			var err error
			got, err = DecodeRoles(post)
			if err != nil {
				m.vd.add(P("C15", "C14"), "undecodable-entry", "%s wrote roles %x under %q of %x: %v", c.Func, post, key, addr, err)
				return
			}
		}
		w, g := sortedRoles(want), sortedRoles(got)
		if strings.Join(w, ",") != strings.Join(g, ",") {
			m.vd.add(P("C03", "C05", "C07"), "role-list", "%s: roles of %x for %q are %q, expected %q", c.Func, addr, key[len(RolePrefix):], g, w)
		}
		return
	}
	if want, ok := m.counter[i]; ok {
		got := lowU64(post)
		if len(post) > 8 {
			m.vd.add(P("C07", "C15"), "counter", "%s: counter %q of %x is %x (more than 8 bytes)", c.Func, key, addr, post)
			return
		}
		for _, w := range want {
			if w == got {
				return
			}
		}
		m.vd.add(P("C07"), "counter", "%s: create counter %q of %x is %d, expected one of %v", c.Func, key[len(NoncePrefix):], addr, got, want)
		return
	}
	if want, ok := m.pause[i]; ok {
		got := len(post) == 2 && post[0]&1 != 0
		if got != want || (len(post) != 0 && len(post) != 2) {
			m.vd.add(P("C04", "C05"), "pause-flag", "%s: pause flag under %q of the system account is %x, expected paused=%v", c.Func, key, post, want)
		}
		return
	}
	if want, ok := m.raw[i]; ok {
		if !bytes.Equal(want, post) {
			m.vd.add(P("C05"), "stored-value", "%s: key %q of %x holds %x, expected %x", c.Func, key, addr, post, want)
		}
		return
	}
	if !bytes.Equal(pre, post) {
		m.vd.add(m.frameProps(key), "frame", "%s (caller %x, recipient %x, args %x) changed key %q of account %x from %x to %x; nothing in its contract allows that",
			c.Func, c.Caller, c.Recipient, c.Args, key, addr, pre, post)
	}
}

func (m *model) compareToken(addr []byte, key string, want, got *Token) {
	c := m.c
	if want == nil || got == nil {
		if want == nil && got == nil {
			return
		}
		if want == nil && got != nil && got.Value != nil && got.Value.Sign() == 0 && !isFrozenProps(got.Properties) {
			m.vd.add(P("C15"), "zero-entry", "%s left a zero-balance entry without frozen flag under %q of %x", c.Func, key, addr)
			return
		}
		m.vd.add(m.valueProps(), "balance", "%s: entry %q of %x is %v, expected %v", c.Func, key, addr, got, want)
		return
	}
	if got.Value == nil || want.Value.Cmp(got.Value) != 0 {
		m.vd.add(m.valueProps(), "balance", "%s: balance under %q of %x is %v, expected %v", c.Func, key, addr, got.Value, want.Value)
	}
	if isFrozenProps(want.Properties) != isFrozenProps(got.Properties) {
		m.vd.add(P("C04"), "frozen-flag", "%s: frozen flag under %q of %x is %v, expected %v", c.Func, key, addr, isFrozenProps(got.Properties), isFrozenProps(want.Properties))
	}
	if want.Type != got.Type {
		m.vd.add(P("C15", "C08"), "token-type", "%s: type under %q of %x is %d, expected %d", c.Func, key, addr, got.Type, want.Type)
	}
	if !MetaEq(want.Meta, got.Meta) {
		if alt, ok := m.altMeta[id(addr, key)]; ok && MetaEq(alt, got.Meta) {
			return
		}
		m.vd.add(P("C08"), "metadata", "%s: metadata under %q of %x is %v, expected %v", c.Func, key, addr, got.Meta, want.Meta)
	}
}

// ---- comparison of expected outputs ----

func (m *model) compareOutputs() {
	c := m.c
	if m.anyOut {
		return
	}
	if len(c.Transfers) != len(m.expOut) {
		m.vd.add(P("C10", "C01"), "outputs", "%s emitted %d output transfers, expected %d: got %s", c.Func, len(c.Transfers), len(m.expOut), fmtTransfers(c.Transfers))
		return
	}
	// expected transfers are matched by destination (at most one per destination in this protocol)
	used := make([]bool, len(c.Transfers))
	for _, e := range m.expOut {
		found := -1
		for i, t := range c.Transfers {
			if !used[i] && bytes.Equal(t.To, e.to) {
				found = i
				break
			}
		}
		if found < 0 {
			m.vd.add(P("C10", "C01"), "outputs", "%s: no output transfer to %x; got %s", c.Func, e.to, fmtTransfers(c.Transfers))
			continue
		}
		used[found] = true
		t := c.Transfers[found]
		m.vd.EmitKind[found] = e.kind
		if len(e.carries) > 0 {
			m.vd.EmitCarries[found] = e.carries
		}
		if !bytes.Equal(t.MapKey, t.To) {
			m.vd.add(P("C10"), "outputs", "%s: output account keyed %x has address %x", c.Func, t.MapKey, t.To)
		}
		if e.sender != nil && !bytes.Equal(t.Sender, e.sender) {
			m.vd.add(P("C10"), "outputs", "%s: output transfer sender %x, expected %x", c.Func, t.Sender, e.sender)
		}
		if e.value != nil && e.value.Cmp(t.Value) != 0 {
			m.vd.add(P("C10", "C05"), "outputs", "%s: output transfer value %v, expected %v", c.Func, t.Value, e.value)
		}
		if !e.ctAny && t.CallType != e.callType {
			m.vd.add(P("C10"), "outputs", "%s: output transfer call type %d, expected %d", c.Func, t.CallType, e.callType)
		}
		if t.GasLocked != e.gasLock {
			m.vd.add(P("C10", "C06"), "outputs", "%s: output transfer gas locked %d, expected %d", c.Func, t.GasLocked, e.gasLock)
		}
		if e.gasZero && t.Gas != 0 {
			m.vd.add(P("C06", "C10"), "outputs", "%s: output transfer carries gas %d, expected none", c.Func, t.Gas)
		}
		if e.gasAll && c.GasRemaining != 0 {
			m.vd.add(P("C06"), "gas-moved", "%s forwards its gas (%d) and still reports %d remaining: forwarded gas must be moved, not copied", c.Func, t.Gas, c.GasRemaining)
		}
		if e.noData {
			if t.Data != "" {
				m.vd.add(P("C10"), "outputs", "%s: value-only transfer carries data %q", c.Func, t.Data)
			}
			continue
		}
		fn, args, err := ParseData(t.Data)
		if err != nil {
			m.vd.add(P("C10", "C12"), "wire", "%s emitted data %q which does not parse: %v", c.Func, t.Data, err)
			continue
		}
		if fn != e.fn {
			m.vd.add(P("C10"), "wire", "%s emitted a call to %q, expected %q (data %q)", c.Func, fn, e.fn, t.Data)
			continue
		}
		if len(args) != len(e.args) {
			m.vd.add(P("C10", "C01"), "wire", "%s emitted %d arguments, expected %d (data %q)", c.Func, len(args), len(e.args), t.Data)
			continue
		}
		for i := range args {
			if chk, ok := e.argCheck[i]; ok {
				if msg := chk(args[i]); msg != "" {
					props := P("C10", "C01")
					if strings.Contains(msg, "metadata") {
						props = append(props, "C08")
					}
					m.vd.add(props, "wire", "%s: emitted argument %d (%x): %s", c.Func, i, args[i], msg)
				}
			} else if !bytes.Equal(args[i], e.args[i]) {
				m.vd.add(P("C10"), "wire", "%s: emitted argument %d is %x, expected %x", c.Func, i, args[i], e.args[i])
			}
		}
	}
}

func fmtTransfers(ts []OutTransfer) string {
	s := "["
	for i, t := range ts {
		if i > 0 {
			s += "; "
		}
		s += fmt.Sprintf("to=%x snd=%x data=%q gas=%d ct=%d val=%v", t.To, t.Sender, t.Data, t.Gas, t.CallType, t.Value)
	}
	return s + "]"
}

// ---- gas ----

func (m *model) forwarded() (uint64, bool) {
	sum := uint64(0)
	for _, t := range m.c.Transfers {
		if sum+t.Gas < sum {
			return 0, true
		}
		sum += t.Gas
	}
	return sum, false
}

func (m *model) checkGas() {
	c := m.c
	fwd, ovf := m.forwarded()
	total := c.GasRemaining + fwd
	if ovf || total < fwd || total > c.Gas {
		m.vd.add(P("C06"), "gas-created", "%s: GasRemaining %d + forwarded %d exceeds GasProvided %d", c.Func, c.GasRemaining, fwd, c.Gas)
		return
	}
	if !m.chargeOK || len(m.charges) == 0 {
		return
	}
	used := c.Gas - total
	min := m.charges[0]
	for _, ch := range m.charges {
		if ch < min {
			min = ch
		}
	}
	if c.Gas < min {
		if total != 0 {
			m.vd.add(P("C06"), "gas-below-charge", "%s charges %d, was given %d and still reports %d left (remaining %d + forwarded %d)", c.Func, min, c.Gas, total, c.GasRemaining, fwd)
		}
		return
	}
	for _, ch := range m.charges {
		if ch == used {
			m.vd.Charge = used
			m.vd.Exact = len(m.charges) == 1
			return
		}
	}
	m.vd.add(P("C16"), "charge", "%s consumed %d gas (provided %d, remaining %d, forwarded %d); the schedule in force prices it at %v", c.Func, used, c.Gas, c.GasRemaining, fwd, m.charges)
}
