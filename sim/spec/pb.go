// Package spec holds the oracle side of the simulator: an independent wire codec for the three
// stored message types, the reference contracts of the built-in functions and the global
// invariants. Nothing in this file calls the repository's generated codec.
package spec

import (
	"bytes"
	"errors"
	"fmt"
	"math/big"
)

// Token is the oracle's decoded view of a stored/shipped ESDigitalToken.
type Token struct {
	Type       uint32
	Value      *big.Int // nil only when the wire carried the 1-byte "nil" form
	Properties []byte
	Meta       *Meta
	Reserved   []byte
}

// Meta is the oracle's decoded view of NFT metadata.
type Meta struct {
	Nonce      uint64
	Name       []byte
	Creator    []byte
	Royalties  uint32
	Hash       []byte
	URIs       [][]byte
	Attributes []byte
}

// Roles is the decoded role list.
type Roles struct {
	Roles [][]byte
}

var errTrunc = errors.New("truncated")

func getVarint(b []byte) (uint64, int, error) {
	var x uint64
	for i := 0; i < len(b); i++ {
		if i == 10 {
			return 0, 0, errors.New("varint too long")
		}
		c := b[i]
		if i == 9 && c > 1 {
			return 0, 0, errors.New("varint overflow")
		}
		x |= uint64(c&0x7f) << (7 * uint(i))
		if c < 0x80 {
			return x, i + 1, nil
		}
	}
	return 0, 0, errTrunc
}

func putVarint(dst []byte, x uint64) []byte {
	for x >= 0x80 {
		dst = append(dst, byte(x)|0x80)
		x >>= 7
	}
	return append(dst, byte(x))
}

type field struct {
	num  uint64
	wire uint64
	v    uint64
	b    []byte
}

func splitFields(b []byte) ([]field, error) {
	var out []field
	for len(b) > 0 {
		tag, n, err := getVarint(b)
		if err != nil {
			return nil, err
		}
		b = b[n:]
		f := field{num: tag >> 3, wire: tag & 7}
		if f.num == 0 {
			return nil, errors.New("field number 0")
		}
		switch f.wire {
		case 0:
			v, n, err := getVarint(b)
			if err != nil {
				return nil, err
			}
			f.v = v
			b = b[n:]
		case 2:
			l, n, err := getVarint(b)
			if err != nil {
				return nil, err
			}
			b = b[n:]
			if l > uint64(len(b)) {
				return nil, errTrunc
			}
			f.b = b[:l]
			b = b[l:]
		default:
			return nil, fmt.Errorf("unexpected wire type %d", f.wire)
		}
		out = append(out, f)
	}
	return out, nil
}

// DecodeAmount decodes the sign-magnitude amount form: one sign byte then the big-endian magnitude.
func DecodeAmount(b []byte) (*big.Int, error) {
	switch len(b) {
	case 0:
		return nil, errors.New("empty amount")
	case 1:
		return nil, nil
	}
	v := new(big.Int).SetBytes(b[1:])
	switch b[0] {
	case 0:
	case 1:
		v.Neg(v)
	default:
		return nil, fmt.Errorf("bad sign byte %d", b[0])
	}
	return v, nil
}

// EncodeAmount is the documented form: sign byte + big-endian magnitude; zero is 00 00; nil is 00.
func EncodeAmount(v *big.Int) []byte {
	if v == nil {
		return []byte{0}
	}
	m := new(big.Int).Abs(v).Bytes()
	if len(m) == 0 {
		return []byte{0, 0}
	}
	s := byte(0)
	if v.Sign() < 0 {
		s = 1
	}
	return append([]byte{s}, m...)
}

// DecodeToken strictly decodes a token entry. Unknown fields, wrong wire types and repeated
// scalar fields are errors ("every protocol entry decodes").
func DecodeToken(b []byte) (*Token, error) {
	fs, err := splitFields(b)
	if err != nil {
		return nil, err
	}
	t := &Token{}
	seen := map[uint64]bool{}
	for _, f := range fs {
		if seen[f.num] {
			return nil, fmt.Errorf("field %d repeated", f.num)
		}
		seen[f.num] = true
		switch f.num {
		case 1:
			if f.wire != 0 || f.v > 0xffffffff {
				return nil, errors.New("bad Type")
			}
			t.Type = uint32(f.v)
		case 2:
			if f.wire != 2 {
				return nil, errors.New("bad Value wire")
			}
			v, err := DecodeAmount(f.b)
			if err != nil {
				return nil, err
			}
			t.Value = v
		case 3:
			if f.wire != 2 {
				return nil, errors.New("bad Properties wire")
			}
			t.Properties = append([]byte{}, f.b...)
		case 4:
			if f.wire != 2 {
				return nil, errors.New("bad MetaData wire")
			}
			m, err := DecodeMeta(f.b)
			if err != nil {
				return nil, err
			}
			t.Meta = m
		case 5:
			if f.wire != 2 {
				return nil, errors.New("bad Reserved wire")
			}
			t.Reserved = append([]byte{}, f.b...)
		default:
			return nil, fmt.Errorf("unknown field %d", f.num)
		}
	}
	if !seen[2] {
		return nil, errors.New("Value field missing")
	}
	return t, nil
}

// DecodeMeta strictly decodes NFT metadata.
func DecodeMeta(b []byte) (*Meta, error) {
	fs, err := splitFields(b)
	if err != nil {
		return nil, err
	}
	m := &Meta{}
	seen := map[uint64]bool{}
	for _, f := range fs {
		if f.num != 6 && seen[f.num] {
			return nil, fmt.Errorf("meta field %d repeated", f.num)
		}
		seen[f.num] = true
		switch f.num {
		case 1:
			if f.wire != 0 {
				return nil, errors.New("bad Nonce")
			}
			m.Nonce = f.v
		case 2, 3, 5, 6, 7:
			if f.wire != 2 {
				return nil, fmt.Errorf("bad wire for meta field %d", f.num)
			}
			c := append([]byte{}, f.b...)
			switch f.num {
			case 2:
				m.Name = c
			case 3:
				m.Creator = c
			case 5:
				m.Hash = c
			case 6:
				m.URIs = append(m.URIs, c)
			case 7:
				m.Attributes = c
			}
		case 4:
			if f.wire != 0 || f.v > 0xffffffff {
				return nil, errors.New("bad Royalties")
			}
			m.Royalties = uint32(f.v)
		default:
			return nil, fmt.Errorf("unknown meta field %d", f.num)
		}
	}
	return m, nil
}

// DecodeRoles strictly decodes a role list.
func DecodeRoles(b []byte) (*Roles, error) {
	fs, err := splitFields(b)
	if err != nil {
		return nil, err
	}
	r := &Roles{}
	for _, f := range fs {
		if f.num != 1 || f.wire != 2 {
			return nil, fmt.Errorf("unexpected roles field %d/%d", f.num, f.wire)
		}
		r.Roles = append(r.Roles, append([]byte{}, f.b...))
	}
	return r, nil
}

func putBytes(dst []byte, num uint64, b []byte) []byte {
	dst = putVarint(dst, num<<3|2)
	dst = putVarint(dst, uint64(len(b)))
	return append(dst, b...)
}

// EncodeMeta is the reference (documented) encoding: fields 1..7 ascending, zero values omitted.
func EncodeMeta(m *Meta) []byte {
	var d []byte
	if m.Nonce != 0 {
		d = putVarint(d, 1<<3|0)
		d = putVarint(d, m.Nonce)
	}
	if len(m.Name) > 0 {
		d = putBytes(d, 2, m.Name)
	}
	if len(m.Creator) > 0 {
		d = putBytes(d, 3, m.Creator)
	}
	if m.Royalties != 0 {
		d = putVarint(d, 4<<3|0)
		d = putVarint(d, uint64(m.Royalties))
	}
	if len(m.Hash) > 0 {
		d = putBytes(d, 5, m.Hash)
	}
	for _, u := range m.URIs {
		d = putBytes(d, 6, u)
	}
	if len(m.Attributes) > 0 {
		d = putBytes(d, 7, m.Attributes)
	}
	return d
}

// EncodeToken is the reference encoding: fields 1..5 ascending, Value always present.
func EncodeToken(t *Token) []byte {
	var d []byte
	if t.Type != 0 {
		d = putVarint(d, 1<<3|0)
		d = putVarint(d, uint64(t.Type))
	}
	d = putBytes(d, 2, EncodeAmount(t.Value))
	if len(t.Properties) > 0 {
		d = putBytes(d, 3, t.Properties)
	}
	if t.Meta != nil {
		d = putBytes(d, 4, EncodeMeta(t.Meta))
	}
	if len(t.Reserved) > 0 {
		d = putBytes(d, 5, t.Reserved)
	}
	return d
}

// EncodeRoles is the reference encoding of a role list.
func EncodeRoles(r *Roles) []byte {
	var d []byte
	for _, x := range r.Roles {
		d = putBytes(d, 1, x)
	}
	return d
}

func bytesListEq(a, b [][]byte) bool {
	if len(a) != len(b) {
		return false
	}
	for i := range a {
		if !bytes.Equal(a[i], b[i]) {
			return false
		}
	}
	return true
}

// MetaEq compares metadata field by field (nil and empty byte strings are the same wire value).
func MetaEq(a, b *Meta) bool {
	if a == nil || b == nil {
		return a == nil && b == nil
	}
	return a.Nonce == b.Nonce && bytes.Equal(a.Name, b.Name) && bytes.Equal(a.Creator, b.Creator) &&
		a.Royalties == b.Royalties && bytes.Equal(a.Hash, b.Hash) && bytesListEq(a.URIs, b.URIs) &&
		bytes.Equal(a.Attributes, b.Attributes)
}

// CloneMeta deep-copies metadata.
func CloneMeta(m *Meta) *Meta {
	if m == nil {
		return nil
	}
	c := *m
	c.Name = append([]byte{}, m.Name...)
	c.Creator = append([]byte{}, m.Creator...)
	c.Hash = append([]byte{}, m.Hash...)
	c.Attributes = append([]byte{}, m.Attributes...)
	c.URIs = nil
	for _, u := range m.URIs {
		c.URIs = append(c.URIs, append([]byte{}, u...))
	}
	return &c
}

// CloneToken deep-copies a token.
func CloneToken(t *Token) *Token {
	if t == nil {
		return nil
	}
	c := &Token{Type: t.Type, Properties: append([]byte{}, t.Properties...), Reserved: append([]byte{}, t.Reserved...), Meta: CloneMeta(t.Meta)}
	if t.Value != nil {
		c.Value = new(big.Int).Set(t.Value)
	}
	return c
}

func (m *Meta) String() string {
	if m == nil {
		return "<nil>"
	}
	return fmt.Sprintf("{n=%d name=%x creator=%x roy=%d hash=%x uris=%x attr=%x}", m.Nonce, m.Name, m.Creator, m.Royalties, m.Hash, m.URIs, m.Attributes)
}

func (t *Token) String() string {
	if t == nil {
		return "<absent>"
	}
	return fmt.Sprintf("{type=%d value=%v props=%x meta=%v res=%x}", t.Type, t.Value, t.Properties, t.Meta, t.Reserved)
}
