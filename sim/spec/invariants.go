package spec

import (
	"bytes"
	"fmt"
	"math/big"
	"sort"
	"strings"
)

// Ghost is the minimal history the invariants need beyond the real state.
type Ghost struct {
	Supply    map[string]*big.Int // storage-level token key -> supply (mint/create/add minus burn/wipe)
	MaxIssued map[string]uint64   // token -> highest nonce ever returned by a create
	Issued    map[string]bool     // token \x00 nonce -> returned by a create
	// DupAllowed: (address \x00 token) pairs for which the system-contract model itself broke its
	// discipline (re-sent a role grant): the no-duplicates clause is not evaluated for them
	DupAllowed map[string]bool
}

// NewGhost returns an empty ghost.
func NewGhost() *Ghost {
	return &Ghost{Supply: map[string]*big.Int{}, MaxIssued: map[string]uint64{}, Issued: map[string]bool{}, DupAllowed: map[string]bool{}}
}

// Clone copies the ghost.
func (g *Ghost) Clone() *Ghost {
	c := NewGhost()
	for k, v := range g.Supply {
		c.Supply[k] = new(big.Int).Set(v)
	}
	for k, v := range g.MaxIssued {
		c.MaxIssued[k] = v
	}
	for k, v := range g.Issued {
		c.Issued[k] = v
	}
	for k, v := range g.DupAllowed {
		c.DupAllowed[k] = v
	}
	return c
}

// Apply folds the ghost updates of a judged successful call. It returns violations of the
// nonce-uniqueness clause (C07).
func (g *Ghost) Apply(vd *Verdict) []Violation {
	var out []Violation
	for _, d := range vd.SupplyDelta {
		k := TokenKey(d.Token, d.Nonce)
		if g.Supply[k] == nil {
			g.Supply[k] = big.NewInt(0)
		}
		g.Supply[k].Add(g.Supply[k], d.Amount)
	}
	if vd.IssuedToken != nil {
		ik := string(vd.IssuedToken) + "\x00" + string(NonceBytes(vd.IssuedNonce))
		if g.Issued[ik] {
			out = append(out, Violation{Props: P("C07"), Clause: "nonce-reissued", Detail: fmt.Sprintf("create returned nonce %d of token %q a second time", vd.IssuedNonce, vd.IssuedToken)})
		}
		if vd.IssuedNonce <= g.MaxIssued[string(vd.IssuedToken)] {
			out = append(out, Violation{Props: P("C07"), Clause: "nonce-not-increasing", Detail: fmt.Sprintf("create returned nonce %d of token %q after %d had been issued", vd.IssuedNonce, vd.IssuedToken, g.MaxIssued[string(vd.IssuedToken)])})
		}
		g.Issued[ik] = true
		if vd.IssuedNonce > g.MaxIssued[string(vd.IssuedToken)] {
			g.MaxIssued[string(vd.IssuedToken)] = vd.IssuedNonce
		}
	}
	return out
}

// CheckWorld evaluates the global invariants (clause 8) over all shards.
// inflight is the ghost payload of every undelivered value-carrying message.
func CheckWorld(states []ShardState, inflight []Carry, g *Ghost) []Violation {
	var out []Violation
	add := func(props []string, clause, format string, a ...interface{}) {
		out = append(out, Violation{Props: props, Clause: clause, Detail: fmt.Sprintf(format, a...)})
	}
	sums := map[string]*big.Int{}
	addSum := func(k string, v *big.Int) {
		if sums[k] == nil {
			sums[k] = big.NewInt(0)
		}
		sums[k].Add(sums[k], v)
	}
	for sh, st := range states {
		for _, a := range st.SortedAddrs() {
			acct := st[a]
			isSys := a == string(SystemAccount)
			for _, k := range acct.SortedKeys() {
				v := acct.Storage[k]
				if !strings.HasPrefix(k, ProtectedPrefix) {
					continue
				}
				switch {
				case strings.HasPrefix(k, TokenPrefix):
					if len(k) == len(TokenPrefix) {
						add(P("C15"), "key-layout", "shard %d account %x has a token key without token identifier", sh, a)
						continue
					}
					if isSys {
						if len(v) != 2 {
							add(P("C15", "C04"), "pause-entry", "shard %d: pause entry %q of the system account holds %x", sh, k, v)
						}
						continue
					}
					t, err := DecodeToken(v)
					if err != nil {
						add(P("C15", "C14"), "undecodable-entry", "shard %d account %x key %q holds %x which does not decode: %v", sh, a, k, v, err)
						continue
					}
					if t.Value == nil || t.Value.Sign() < 0 {
						add(P("C15", "C02"), "negative-balance", "shard %d account %x key %q holds balance %v", sh, a, k, t.Value)
						continue
					}
					if t.Value.Sign() == 0 && !(isFrozenProps(t.Properties) && t.Meta == nil) {
						add(P("C15"), "zero-entry", "shard %d account %x key %q is a zero-balance entry without frozen flag: %v", sh, a, k, t)
					}
					if t.Meta == nil {
						if t.Type != 0 {
							add(P("C15"), "entry-kind", "shard %d account %x key %q has no metadata but type %d", sh, a, k, t.Type)
						}
					} else {
						nb := string(NonceBytes(t.Meta.Nonce))
						if t.Meta.Nonce == 0 || !strings.HasSuffix(k, nb) || len(k) <= len(TokenPrefix)+len(nb) {
							add(P("C15", "C01", "C05"), "entry-nonce", "shard %d account %x key %q carries metadata of nonce %d which does not match the key", sh, a, k, t.Meta.Nonce)
						}
						if t.Type != 1 {
							add(P("C15"), "entry-kind", "shard %d account %x key %q has metadata but type %d", sh, a, k, t.Type)
						}
						if t.Meta.Royalties > MaxRoyalty {
							add(P("C08", "C15"), "royalties", "shard %d account %x key %q records royalties %d", sh, a, k, t.Meta.Royalties)
						}
					}
					addSum(k, t.Value)
				case strings.HasPrefix(k, RolePrefix):
					r, err := DecodeRoles(v)
					if err != nil || len(r.Roles) == 0 {
						add(P("C15", "C14"), "undecodable-entry", "shard %d account %x role list %q holds %x: %v", sh, a, k, v, err)
						continue
					}
					seen := map[string]bool{}
					for _, x := range r.Roles {
						if seen[string(x)] && !g.DupAllowed[a+"\x00"+k[len(RolePrefix):]] {
							add(P("C15"), "duplicate-role", "shard %d account %x holds role %q twice for %q", sh, a, x, k[len(RolePrefix):])
						}
						seen[string(x)] = true
					}
					if seen[RoleNFTCreate] {
						tok := k[len(RolePrefix):]
						if mx, ok := g.MaxIssued[tok]; ok {
							cnt := lowU64(acct.Storage[NoncePrefix+tok])
							if cnt < mx {
								add(P("C07", "C15"), "counter-behind", "shard %d account %x holds the create role of %q with counter %d although nonce %d has been issued", sh, a, tok, cnt, mx)
							}
						}
					}
				case strings.HasPrefix(k, NoncePrefix):
					if len(v) == 0 || len(v) > 8 {
						add(P("C15", "C07"), "counter-entry", "shard %d account %x counter %q holds %x", sh, a, k, v)
					}
				default:
					add(P("C15", "C05"), "key-layout", "shard %d account %x has protected key %q which is none of the three protocol layouts", sh, a, k)
				}
			}
		}
	}
	for _, c := range inflight {
		addSum(TokenKey(c.Token, c.Nonce), c.Amount)
	}
	keys := map[string]bool{}
	for k := range sums {
		keys[k] = true
	}
	for k := range g.Supply {
		keys[k] = true
	}
	kl := make([]string, 0, len(keys))
	for k := range keys {
		kl = append(kl, k)
	}
	sort.Strings(kl)
	for _, k := range kl {
		have, want := sums[k], g.Supply[k]
		if have == nil {
			have = big.NewInt(0)
		}
		if want == nil {
			want = big.NewInt(0)
		}
		if have.Cmp(want) != 0 {
			add(P("C01", "C02", "C15"), "supply-equation", "key %q: balances on all shards plus undelivered transfers sum to %v, minted minus burnt is %v", k, have, want)
		}
	}
	return out
}

// HoldersOf lists (shard, address) pairs holding the create role for a token (helper for the harness).
func HoldersOf(states []ShardState, token []byte) [][2]string {
	var out [][2]string
	for sh, st := range states {
		for _, a := range st.SortedAddrs() {
			if raw := st[a].Storage[RoleKey(token)]; len(raw) > 0 {
				if r, err := DecodeRoles(raw); err == nil && hasRole(r, RoleNFTCreate) {
					out = append(out, [2]string{fmt.Sprint(sh), a})
				}
			}
		}
	}
	return out
}

// Balance reads the decoded balance of (token, nonce) of an account (0 when absent/undecodable).
func Balance(st ShardState, addr []byte, token []byte, nonce uint64) *big.Int {
	a, ok := st[string(addr)]
	if !ok {
		return big.NewInt(0)
	}
	raw := a.Storage[TokenKey(token, nonce)]
	if len(raw) == 0 {
		return big.NewInt(0)
	}
	t, err := DecodeToken(raw)
	if err != nil || t.Value == nil {
		return big.NewInt(0)
	}
	return t.Value
}

// RolesOf reads the decoded roles of an account for a token.
func RolesOf(st ShardState, addr []byte, token []byte) []string {
	a, ok := st[string(addr)]
	if !ok {
		return nil
	}
	raw := a.Storage[RoleKey(token)]
	if len(raw) == 0 {
		return nil
	}
	r, err := DecodeRoles(raw)
	if err != nil {
		return nil
	}
	return sortedRoles(r)
}

// IsFrozen reads the frozen flag of the fungible entry.
func IsFrozen(st ShardState, addr []byte, token []byte) bool {
	a, ok := st[string(addr)]
	if !ok {
		return false
	}
	raw := a.Storage[TokenKey(token, 0)]
	if len(raw) == 0 {
		return false
	}
	t, err := DecodeToken(raw)
	return err == nil && isFrozenProps(t.Properties)
}

// IsPaused reads the pause flag of a token on a shard.
func IsPaused(st ShardState, token []byte) bool {
	a, ok := st[string(SystemAccount)]
	if !ok {
		return false
	}
	raw := a.Storage[TokenPrefix+string(token)]
	return len(raw) == 2 && raw[0]&1 != 0
}

var _ = bytes.Equal
