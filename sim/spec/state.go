package spec

import (
	"bytes"
	"math/big"
	"sort"
)

// Acct is the state of one account on one shard.
type Acct struct {
	Nonce        uint64
	Balance      *big.Int
	Owner        []byte
	UserName     []byte
	DevReward    *big.Int
	CodeMetadata []byte
	Storage      map[string][]byte
}

// NewAcct returns an empty account.
func NewAcct() *Acct {
	return &Acct{Balance: big.NewInt(0), DevReward: big.NewInt(0), Storage: map[string][]byte{}}
}

// Clone copies the account (stored values are immutable and shared).
func (a *Acct) Clone() *Acct {
	c := &Acct{
		Nonce:        a.Nonce,
		Balance:      new(big.Int).Set(a.Balance),
		Owner:        a.Owner,
		UserName:     a.UserName,
		DevReward:    new(big.Int).Set(a.DevReward),
		CodeMetadata: a.CodeMetadata,
		Storage:      make(map[string][]byte, len(a.Storage)),
	}
	for k, v := range a.Storage {
		c.Storage[k] = v
	}
	return c
}

// FieldsEqual compares the non-storage fields.
func (a *Acct) FieldsEqual(b *Acct) bool {
	return a.Nonce == b.Nonce && a.Balance.Cmp(b.Balance) == 0 && bytes.Equal(a.Owner, b.Owner) &&
		bytes.Equal(a.UserName, b.UserName) && a.DevReward.Cmp(b.DevReward) == 0 && bytes.Equal(a.CodeMetadata, b.CodeMetadata)
}

// IsEmpty says whether the account is indistinguishable from an absent one.
func (a *Acct) IsEmpty() bool {
	return a.Nonce == 0 && a.Balance.Sign() == 0 && len(a.Owner) == 0 && len(a.UserName) == 0 &&
		a.DevReward.Sign() == 0 && len(a.CodeMetadata) == 0 && len(a.Storage) == 0
}

// ShardState is the whole state of one shard: address -> account.
type ShardState map[string]*Acct

// Clone deep-copies the shard state.
func (s ShardState) Clone() ShardState {
	c := make(ShardState, len(s))
	for k, a := range s {
		c[k] = a.Clone()
	}
	return c
}

// Get returns the account or an empty one.
func (s ShardState) Get(addr string) *Acct {
	if a, ok := s[addr]; ok {
		return a
	}
	return NewAcct()
}

// SortedAddrs lists addresses in byte order.
func (s ShardState) SortedAddrs() []string {
	out := make([]string, 0, len(s))
	for k := range s {
		out = append(out, k)
	}
	sort.Strings(out)
	return out
}

// SortedKeys lists the storage keys of an account in byte order.
func (a *Acct) SortedKeys() []string {
	out := make([]string, 0, len(a.Storage))
	for k := range a.Storage {
		out = append(out, k)
	}
	sort.Strings(out)
	return out
}
