package spec

import (
	"bytes"
	"fmt"
	"math/big"
	"sort"
)

// Protocol constants, restated by the oracle (from the protocol documentation, not imported).
const (
	ProtectedPrefix = "ELROND"
	TokenPrefix     = "ELRONDesdt"
	RolePrefix      = "ELRONDroleesdt"
	NoncePrefix     = "ELRONDnonce"

	FnESDTTransfer       = "ESDTTransfer"
	FnESDTNFTTransfer    = "ESDTNFTTransfer"
	FnMultiTransfer      = "MultiESDTNFTTransfer"
	FnLocalMint          = "ESDTLocalMint"
	FnLocalBurn          = "ESDTLocalBurn"
	FnBurn               = "ESDTBurn"
	FnNFTCreate          = "ESDTNFTCreate"
	FnNFTAddQuantity     = "ESDTNFTAddQuantity"
	FnNFTBurn            = "ESDTNFTBurn"
	FnNFTAddURI          = "ESDTNFTAddURI"
	FnNFTUpdateAttrs     = "ESDTNFTUpdateAttributes"
	FnFreeze             = "ESDTFreeze"
	FnUnFreeze           = "ESDTUnFreeze"
	FnWipe               = "ESDTWipe"
	FnPause              = "ESDTPause"
	FnUnPause            = "ESDTUnPause"
	FnSetRole            = "ESDTSetRole"
	FnUnSetRole          = "ESDTUnSetRole"
	FnCreateRoleTransfer = "ESDTNFTCreateRoleTransfer"
	FnChangeOwner        = "ChangeOwnerAddress"
	FnClaimRewards       = "ClaimDeveloperRewards"
	FnSetUserName        = "SetUserName"
	FnSaveKeyValue       = "SaveKeyValue"

	RoleLocalMint      = "ESDTRoleLocalMint"
	RoleLocalBurn      = "ESDTRoleLocalBurn"
	RoleNFTCreate      = "ESDTRoleNFTCreate"
	RoleNFTAddQuantity = "ESDTRoleNFTAddQuantity"
	RoleNFTBurn        = "ESDTRoleNFTBurn"
	RoleNFTAddURI      = "ESDTRoleNFTAddURI"
	RoleNFTUpdateAttrs = "ESDTRoleNFTUpdateAttributes"

	CallDirect   = 0
	CallAsync    = 1
	CallCallBack = 2
	CallTransfEx = 3

	MaxRoyalty = 10000
	MetaShard  = uint32(0xFFFFFFFF)
)

// AllFunctions is the protocol's list of 23 built-in function names.
var AllFunctions = []string{
	FnChangeOwner, FnClaimRewards, FnBurn, FnFreeze, FnLocalBurn, FnLocalMint, FnNFTAddQuantity, FnNFTAddURI,
	FnNFTBurn, FnNFTCreate, FnCreateRoleTransfer, FnESDTNFTTransfer, FnNFTUpdateAttrs, FnPause, FnSetRole, FnESDTTransfer,
	FnUnFreeze, FnUnPause, FnUnSetRole, FnWipe, FnMultiTransfer, FnSaveKeyValue, FnSetUserName,
}

// ESDTSystemSC is the ESDT system contract address; SystemAccount the per-shard system account.
var ESDTSystemSC = []byte{0, 0, 0, 0, 0, 0, 0, 0, 0, 1, 0, 0, 0, 0, 0, 0, 0, 0, 0, 0, 0, 0, 0, 0, 0, 0, 0, 0, 0, 2, 255, 255}
var SystemAccount = bytes.Repeat([]byte{255}, 32)

// IsContract: contract addresses start with eight zero bytes (and are longer than ten bytes).
func IsContract(a []byte) bool {
	if len(a) <= 10 {
		return false
	}
	for _, b := range a[:8] {
		if b != 0 {
			return false
		}
	}
	return true
}

// IsMetaContract: a contract address whose bytes 10..24 are zero and whose last byte is 0xff.
func IsMetaContract(a []byte) bool {
	if len(a) <= 25 || !IsContract(a) || a[len(a)-1] != 0xff {
		return false
	}
	for _, b := range a[10:25] {
		if b != 0 {
			return false
		}
	}
	return true
}

// ShardOf is the simulated world's address-to-shard map.
func ShardOf(a []byte, n uint32) uint32 {
	if len(a) == 0 {
		return 0
	}
	if IsMetaContract(a) {
		return MetaShard
	}
	return uint32(a[len(a)-1]) % n
}

// Carry is a quantity of one (token, nonce).
type Carry struct {
	Token  []byte
	Nonce  uint64
	Amount *big.Int
}

func (c Carry) String() string { return fmt.Sprintf("(%q,%d,%v)", c.Token, c.Nonce, c.Amount) }

// NonceBytes is the minimal big-endian form of a nonce (empty for zero).
func NonceBytes(n uint64) []byte { return new(big.Int).SetUint64(n).Bytes() }

// TokenKey is the storage key of (token, nonce).
func TokenKey(token []byte, nonce uint64) string {
	return TokenPrefix + string(token) + string(NonceBytes(nonce))
}

// RoleKey / CounterKey are the other two protocol keys.
func RoleKey(token []byte) string    { return RolePrefix + string(token) }
func CounterKey(token []byte) string { return NoncePrefix + string(token) }

// OutTransfer is one emitted output transfer in canonical order.
type OutTransfer struct {
	MapKey    []byte
	To        []byte
	Sender    []byte
	Data      string
	Gas       uint64
	GasLocked uint64
	CallType  int
	Value     *big.Int
	Index     int
}

// LogEntry mirrors a VM log entry.
type LogEntry struct {
	Identifier []byte
	Address    []byte
	Topics     [][]byte
	Data       []byte
}

// GasSched is the oracle's reading of the schedule a shard last accepted.
type GasSched struct {
	Base    map[string]uint64
	BuiltIn map[string]uint64
}

// Env is what the oracle knows about the executing shard's configuration.
type Env struct {
	Shard     uint32
	NumShards uint32
	Sched     GasSched
	// SchedOf: function name -> schedule that function object was told directly (SetNewGasConfig on
	// the object) after the shard's last accepted schedule change; absent for every other function
	SchedOf    map[string]GasSched
	DNS        map[string]bool
	NameChange bool
	// PayState: 0 payable, 1 non-payable, 2 erroring
	PayState func(addr []byte) int
}

// Call is one executed call as the oracle sees it.
type Call struct {
	Kind      string // message kind: tx, cont, control, refund, intra
	Func      string
	Caller    []byte
	Recipient []byte
	Args      [][]byte
	CallValue *big.Int
	CallType  int
	Gas       uint64
	GasLocked uint64
	ReturnErr bool
	HasSnd    bool
	HasDst    bool
	Pre       ShardState
	Post      ShardState

	OK           bool
	Err          string
	Panic        string
	NilOutOK     bool // shape: out == nil although err == nil, or out != nil with err
	RetCode      int
	GasRemaining uint64
	ReturnData   [][]byte
	Logs         []LogEntry
	Transfers    []OutTransfer

	Carried []Carry // ghost payload of the message being delivered (continuations / refunds)
	Mint    bool    // system-contract credit
	Fault   bool    // a dependency fault was injected into this call
	// AbsentAddr/AbsentKey: a storage read of this key of this account failed (fail-soft fault)
	AbsentAddr []byte
	AbsentKey  string
}

// Violation is one broken oracle clause with the properties whose statement it contradicts.
type Violation struct {
	Props  []string
	Clause string
	Detail string
}

func (v Violation) String() string {
	return fmt.Sprintf("[%s] %s: %s", joinProps(v.Props), v.Clause, v.Detail)
}

func joinProps(p []string) string {
	s := append([]string{}, p...)
	sort.Strings(s)
	out := ""
	for i, x := range s {
		if i > 0 {
			out += ","
		}
		out += x
	}
	return out
}

// Has says whether the violation speaks for the property.
func (v Violation) Has(prop string) bool {
	for _, p := range v.Props {
		if p == prop {
			return true
		}
	}
	return false
}

// Verdict is the oracle's judgement of one call plus the ghost updates it implies.
type Verdict struct {
	Viol []Violation
	// SupplyDelta: signed changes of the ghost supply (mint/create/add-quantity positive; burn/wipe negative)
	SupplyDelta []Carry
	// EmitCarries[i]: what emitted transfer i carries in flight; ContCarries: what the
	// transaction's own continuation carries (user transactions that continue on another shard)
	EmitCarries map[int][]Carry
	ContCarries []Carry
	// EmitKind[i]: classification of transfer i: "cont" (built-in continuation) or "terminal"
	EmitKind map[int]string
	// Issued is set by a successful create
	IssuedToken []byte
	IssuedNonce uint64
	// Moved: what the ledger moved for this call (debits on the sender side, credits on the destination side)
	Moved    []Carry
	MovedTo  []byte
	Side     string // "sender" or "dest" or ""
	Class    string // outcome class for the coverage matrix
	MustFail string // non-empty: the model says this call had to fail (reason)
	Charge   uint64 // charge the model computed (when exact)
	Exact    bool   // whether Charge is exact for this call
}

func (vd *Verdict) add(props []string, clause, format string, a ...interface{}) {
	vd.Viol = append(vd.Viol, Violation{Props: props, Clause: clause, Detail: fmt.Sprintf(format, a...)})
}

// P is shorthand for a property list.
func P(p ...string) []string { return p }

func be(b []byte) *big.Int { return new(big.Int).SetBytes(b) }

// lowU64 is the low 64 bits of a big-endian number of any length.
func lowU64(b []byte) uint64 {
	if len(b) > 8 {
		b = b[len(b)-8:]
	}
	return new(big.Int).SetBytes(b).Uint64()
}

func hasRole(r *Roles, role string) bool {
	if r == nil {
		return false
	}
	for _, x := range r.Roles {
		if string(x) == role {
			return true
		}
	}
	return false
}

func isFrozenProps(p []byte) bool { return len(p) == 2 && p[0]&1 != 0 }

func allZero(p []byte) bool {
	for _, b := range p {
		if b != 0 {
			return false
		}
	}
	return true
}

// IsSystemAccountShaped: the first 30 bytes are 0xff (the per-shard forms of the system account address).
func IsSystemAccountShaped(a []byte) bool {
	if len(a) < 30 {
		return false
	}
	for _, b := range a[:30] {
		if b != 0xff {
			return false
		}
	}
	return true
}
