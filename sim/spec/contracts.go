package spec

import (
	"bytes"
	"fmt"
	"math/big"
	"strings"
)

// Judge is the oracle: given one executed call it returns every clause the call broke, tagged
// with the properties whose statement the clause restates, plus the ghost updates a success implies.
// It is relational: it never requires a call to succeed except where a property demands
// acceptance (continuations and refunds), and never forbids one except where a property does.
func Judge(c *Call, env *Env) *Verdict {
	vd := &Verdict{EmitCarries: map[int][]Carry{}, EmitKind: map[int]string{}}
	if c.Panic != "" {
		vd.Class = "panic"
		vd.add(P("C11"), "panic", "%s panicked: %s (caller %x recipient %x args %x gas %d)", c.Func, c.Panic, c.Caller, c.Recipient, c.Args, c.Gas)
		return vd
	}
	if c.NilOutOK {
		vd.Class = "shape"
		vd.add(P("C11", "C17"), "shape", "%s returned an ill-formed result: ok=%v err=%q retcode=%d", c.Func, c.OK, c.Err, c.RetCode)
		return vd
	}
	if c.OK && c.RetCode != 0 {
		vd.Class = "shape"
		vd.add(P("C11"), "shape", "%s returned a nil error with return code %d", c.Func, c.RetCode)
		return vd
	}
	m := &model{c: c, env: env, vd: vd, tok: map[string]*Token{}, altMeta: map[string]*Meta{}, roles: map[string]*Roles{},
		counter: map[string][]uint64{}, raw: map[string][]byte{}, pause: map[string]bool{}, fields: map[string]*Acct{}}

	if c.CallValue != nil && c.CallValue.Sign() != 0 {
		// every built-in function is documented to refuse a call value; no property restates it,
		// so a success is only held to the frame condition
		vd.Class = "callvalue"
		if c.OK {
			m.compareState()
		}
		return vd
	}

	switch c.Func {
	case FnESDTTransfer:
		m.esdtTransfer()
	case FnESDTNFTTransfer:
		m.nftTransfer()
	case FnMultiTransfer:
		m.multiTransfer()
	case FnLocalMint:
		m.localMintBurn(true)
	case FnLocalBurn:
		m.localMintBurn(false)
	case FnBurn:
		m.burn()
	case FnNFTCreate:
		m.nftCreate()
	case FnNFTAddQuantity:
		m.nftAddBurn(true)
	case FnNFTBurn:
		m.nftAddBurn(false)
	case FnNFTAddURI:
		m.nftMetaUpdate(true)
	case FnNFTUpdateAttrs:
		m.nftMetaUpdate(false)
	case FnFreeze, FnUnFreeze, FnWipe:
		m.freezeWipe()
	case FnPause, FnUnPause:
		m.pauseFn()
	case FnSetRole, FnUnSetRole:
		m.rolesFn()
	case FnCreateRoleTransfer:
		m.createRoleTransfer()
	case FnChangeOwner:
		m.changeOwner()
	case FnClaimRewards:
		m.claimRewards()
	case FnSetUserName:
		m.setUserName()
	case FnSaveKeyValue:
		m.saveKeyValue()
	default:
		m.anyOut = true
	}

	if !c.OK {
		vd.Class = "err"
		if vd.MustFail != "" {
			vd.Class = "err-required"
		}
		// required acceptance (C01, C10): a value-carrying continuation or a refund may only be
		// refused for a reason a property names (frozen, paused, non-payable, different hash)
		if vd.MustFail == "" && m.gaveUp == "" && !c.Fault && carriesValue(c.Carried) && (c.Kind == "cont" || c.Kind == "refund") {
			props := P("C01", "C10")
			if c.Kind == "refund" {
				props = append(props, "C02") // a refused refund destroys supply
				if isFrozenOrPausedRefusal(c.Err) {
					props = append(props, "C04") // refunds flagged return-after-error are exempt from freeze and pause
				}
			}
			vd.add(props, "required-acceptance", "the %s shard refused the %s message %s@%x emitted by a successful sender-side execution: %s", "destination", c.Kind, c.Func, c.Args, c.Err)
		}
		// the hand-over message the old holder's shard emitted must be accepted by the next holder's
		// shard: there is no state in which a property lets it be refused (C07: the counter moves
		// together with the role; C10: continuations are accepted)
		if c.Func == FnCreateRoleTransfer && c.Kind == "cont" && vd.MustFail == "" && m.gaveUp == "" && !c.Fault {
			vd.add(P("C07", "C10"), "required-acceptance", "the next holder's shard refused the hand-over message %s@%x: %s", c.Func, c.Args, c.Err)
		}
		vd.SupplyDelta, vd.Moved, vd.ContCarries = nil, nil, nil
		vd.IssuedToken = nil
		return vd
	}
	if vd.MustFail != "" {
		vd.Class = "forbidden-success"
		vd.SupplyDelta, vd.Moved, vd.ContCarries = nil, nil, nil
		vd.IssuedToken = nil
		return vd
	}
	vd.Class = "ok"
	if m.gaveUp != "" {
		vd.Class = "ok-uninterpreted"
		vd.SupplyDelta, vd.Moved, vd.ContCarries = nil, nil, nil
		vd.IssuedToken = nil
		m.checkGasBound()
		return vd
	}
	m.compareState()
	m.compareOutputs()
	m.checkGas()
	return vd
}

func isFrozenOrPausedRefusal(e string) bool {
	return strings.Contains(e, "frozen") || strings.Contains(e, "paused")
}

// carriesValue: a message moving only zero quantities may be refused (silent case).
func carriesValue(cs []Carry) bool {
	for _, c := range cs {
		if c.Amount != nil && c.Amount.Sign() > 0 {
			return true
		}
	}
	return false
}

func (m *model) checkGasBound() {
	fwd, ovf := m.forwarded()
	if ovf || m.c.GasRemaining+fwd < fwd || m.c.GasRemaining+fwd > m.c.Gas {
		m.vd.add(P("C06"), "gas-created", "%s: GasRemaining %d + forwarded %d exceeds GasProvided %d", m.c.Func, m.c.GasRemaining, fwd, m.c.Gas)
	}
}

// the schedule that prices this call: the one the shard last accepted, unless this function object
// was last told another one directly (Env.SchedOf)
func (m *model) sched() GasSched {
	if s, ok := m.env.SchedOf[m.c.Func]; ok {
		return s
	}
	return m.env.Sched
}
func (m *model) base(name string) uint64 { return m.sched().Base[name] }
func (m *model) cost(name string) uint64 { return m.sched().BuiltIn[name] }

func (m *model) setCharge(ch ...uint64) {
	m.charges = ch
	m.chargeOK = true
}

// malformed: the input is not a well-formed call of this function. No effect is allowed.
func (m *model) malformed() {
	m.vd.Side = ""
	if m.c.OK {
		m.vd.Class = "ok-malformed"
	}
}

func (m *model) local(addr []byte) bool { return ShardOf(addr, m.env.NumShards) == m.env.Shard }

// ---------------- ESDTTransfer ----------------

func (m *model) esdtTransfer() {
	c := m.c
	if len(c.Args) < 2 {
		return
	}
	token, val := c.Args[0], be(c.Args[1])
	if ShardOf(c.Recipient, m.env.NumShards) == MetaShard {
		m.mustFail(P("C09"), "the recipient %x is on the metachain", c.Recipient)
		return
	}
	if val.Sign() == 0 {
		// silent case: rejection, or success with no effect
		m.anyOut = true
		return
	}
	carry := []Carry{{Token: token, Nonce: 0, Amount: val}}
	if c.HasSnd {
		m.vd.Side = "sender"
		if m.debit(c.Caller, token, 0, val, P("C01")) == nil || m.vd.MustFail != "" || m.gaveUp != "" {
			return
		}
		m.setCharge(m.cost("ESDTTransfer"))
	} else {
		m.vd.Side = "dest"
	}
	m.vd.Moved = carry
	m.vd.MovedTo = c.Recipient
	hasCall := len(c.Args) > 2
	if c.HasDst {
		if m.payableGate(c.Recipient, m.payExempt(2)) {
			return
		}
		if !m.credit(c.Recipient, token, 0, val, nil) {
			return
		}
		if c.Mint {
			m.vd.SupplyDelta = append(m.vd.SupplyDelta, carry[0])
		}
		if hasCall && IsContract(c.Recipient) {
			if !validCallName(c.Args[2]) {
				m.anyOut = true
				return
			}
			m.expOut = append(m.expOut, expTransfer{to: c.Recipient, sender: c.Caller, fn: string(c.Args[2]), args: c.Args[3:],
				gasAll: true, callType: c.CallType, gasLock: c.GasLocked, value: big.NewInt(0), kind: "terminal"})
		}
		return
	}
	// the credit happens on another shard
	if IsContract(c.Caller) {
		m.expOut = append(m.expOut, expTransfer{to: c.Recipient, sender: c.Caller, fn: FnESDTTransfer, args: c.Args,
			gasAll: true, callType: c.CallType, gasLock: c.GasLocked, value: big.NewInt(0), kind: "cont", carries: carry})
	} else {
		m.vd.ContCarries = carry
	}
}

// ---------------- ESDTNFTTransfer ----------------

// payloadCheck returns a checker for an emitted NFT payload argument.
func payloadCheck(want *Token, qty *big.Int) func([]byte) string {
	return func(b []byte) string {
		got, err := DecodeToken(b)
		if err != nil {
			return fmt.Sprintf("payload does not decode: %v", err)
		}
		if got.Value == nil || got.Value.Cmp(qty) != 0 {
			return fmt.Sprintf("payload carries quantity %v, the ledger debited %v", got.Value, qty)
		}
		if got.Type != want.Type {
			return fmt.Sprintf("payload type %d, sender's entry had %d", got.Type, want.Type)
		}
		if !MetaEq(got.Meta, want.Meta) {
			return fmt.Sprintf("payload metadata %v differs from the sender's metadata %v", got.Meta, want.Meta)
		}
		return ""
	}
}

func (m *model) nftTransfer() {
	c := m.c
	if len(c.Args) < 4 {
		return
	}
	token := c.Args[0]
	if bytes.Equal(c.Caller, c.Recipient) {
		// sender side
		if !c.HasSnd {
			m.gaveUp = "sender-side call without a sender account (not transaction-reachable)"
			return
		}
		m.vd.Side = "sender"
		nonce, qty, dst := lowU64(c.Args[1]), be(c.Args[2]), c.Args[3]
		if len(dst) != len(c.Caller) {
			m.mustFail(P("C09"), "the destination %x has a different length than the sender address", dst)
			return
		}
		if bytes.Equal(dst, c.Caller) {
			m.mustFail(P("C09"), "the destination is the sender itself")
			return
		}
		if ShardOf(dst, m.env.NumShards) == MetaShard {
			m.mustFail(P("C09"), "the destination %x is on the metachain", dst)
			return
		}
		if nonce == 0 {
			// silent case: nonce 0 through the NFT function (the tree refuses it)
			m.gaveUp = "NFT transfer of nonce 0"
			return
		}
		// a zero quantity is a silent case too: refusal, or a transfer of nothing (which may refresh
		// the destination's metadata exactly as a positive quantity would)
		before := m.debit(c.Caller, token, nonce, qty, P("C01"))
		if before == nil || m.vd.MustFail != "" || m.gaveUp != "" {
			return
		}
		m.vd.Moved = []Carry{{Token: token, Nonce: nonce, Amount: qty}}
		m.vd.MovedTo = dst
		hasCall := len(c.Args) > 4
		payloadLen := func(v *big.Int) uint64 {
			t := CloneToken(before)
			t.Value = v
			return uint64(len(EncodeToken(t)))
		}
		fn := m.cost("ESDTNFTTransfer")
		dc := m.base("DataCopyPerByte")
		if m.local(dst) {
			if m.payableGate(dst, m.payExempt(4)) {
				return
			}
			var dstPrev *big.Int
			var dstProps []byte
			if t, _ := m.getTok(dst, TokenKey(token, nonce)); t != nil {
				dstProps = t.Properties
				if t.Value != nil {
					dstPrev = new(big.Int).Set(t.Value)
				}
			}
			if !m.credit(dst, token, nonce, qty, before) {
				return
			}
			// the statement prices "copied bytes of each cross-shard NFT payload"; for a same-shard
			// transfer both conventions are accepted (no copy charge; copy charge on the moved entry,
			// with the sender's or with the destination's properties, before or after the merge)
			withProps := func(v *big.Int, props []byte) uint64 {
				t := CloneToken(before)
				t.Value = v
				t.Properties = props
				return uint64(len(EncodeToken(t)))
			}
			ch := []uint64{fn, fn + dc*payloadLen(qty), fn + dc*withProps(qty, dstProps)}
			if dstPrev != nil {
				sum := new(big.Int).Add(qty, dstPrev)
				ch = append(ch, fn+dc*payloadLen(sum), fn+dc*withProps(sum, dstProps))
			}
			m.setCharge(ch...)
			if hasCall && IsContract(dst) {
				if !validCallName(c.Args[4]) {
					m.anyOut = true
					return
				}
				m.expOut = append(m.expOut, expTransfer{to: dst, sender: c.Caller, fn: string(c.Args[4]), args: c.Args[5:],
					gasAll: true, callType: c.CallType, gasLock: c.GasLocked, value: big.NewInt(0), kind: "terminal"})
			}
			return
		}
		m.setCharge(fn + dc*payloadLen(qty))
		args := [][]byte{c.Args[0], c.Args[1], c.Args[2], nil}
		args = append(args, c.Args[4:]...)
		e := expTransfer{to: dst, sender: c.Caller, fn: FnESDTNFTTransfer, args: args, argCheck: map[int]func([]byte) string{3: payloadCheck(before, qty)},
			callType: c.CallType, gasLock: c.GasLocked, value: big.NewInt(0), kind: "cont", carries: m.vd.Moved}
		if hasCall && IsContract(dst) {
			e.gasAll = true
		} else {
			e.gasZero = true
		}
		m.expOut = append(m.expOut, e)
		return
	}
	// destination side
	if c.HasSnd {
		m.mustFail(P("C03", "C01"), "the destination-side path ran although the sender account %x is local (a credit nobody debited)", c.Caller)
		return
	}
	if !c.HasDst {
		m.gaveUp = "destination-side call without destination account"
		return
	}
	m.vd.Side = "dest"
	p, err := DecodeToken(c.Args[3])
	if err != nil || p.Meta == nil || p.Value == nil {
		m.gaveUp = "destination-side payload is not a well-formed NFT entry (not protocol-generated)"
		return
	}
	nonce, qty := p.Meta.Nonce, p.Value
	if nonce == 0 || qty.Sign() < 0 {
		m.gaveUp = "destination-side payload with nonce 0 or negative value (not protocol-generated)"
		return
	}
	m.vd.Moved = []Carry{{Token: token, Nonce: nonce, Amount: qty}}
	m.vd.MovedTo = c.Recipient
	if m.payableGate(c.Recipient, m.payExempt(4)) {
		return
	}
	if !m.credit(c.Recipient, token, nonce, qty, p) {
		return
	}
	if c.Mint {
		m.vd.SupplyDelta = append(m.vd.SupplyDelta, m.vd.Moved...)
	}
	if len(c.Args) > 4 && IsContract(c.Recipient) {
		if !validCallName(c.Args[4]) {
			m.anyOut = true
			return
		}
		m.expOut = append(m.expOut, expTransfer{to: c.Recipient, sender: c.Caller, fn: string(c.Args[4]), args: c.Args[5:],
			gasAll: true, callType: c.CallType, gasLock: c.GasLocked, value: big.NewInt(0), kind: "terminal"})
	}
}

// ---------------- MultiESDTNFTTransfer ----------------

func (m *model) multiTransfer() {
	c := m.c
	if len(c.Args) < 4 {
		return
	}
	if bytes.Equal(c.Caller, c.Recipient) {
		if !c.HasSnd {
			m.gaveUp = "sender-side call without a sender account (not transaction-reachable)"
			return
		}
		m.vd.Side = "sender"
		dst := c.Args[0]
		// numbers longer than eight bytes: the statements do not say how they are read; the low
		// 64 bits are used (a rejection is always acceptable)
		cnt := new(big.Int).SetUint64(lowU64(c.Args[1]))
		if len(dst) != len(c.Caller) {
			m.mustFail(P("C09"), "the destination %x has a different length than the sender address", dst)
			return
		}
		if bytes.Equal(dst, c.Caller) {
			m.mustFail(P("C09"), "the destination is the sender itself")
			return
		}
		if ShardOf(dst, m.env.NumShards) == MetaShard {
			m.mustFail(P("C09"), "the destination %x is on the metachain", dst)
			return
		}
		// well-formedness of the count, in unbounded arithmetic
		need := new(big.Int).Mul(cnt, big.NewInt(3))
		need.Add(need, big.NewInt(2))
		if cnt.Sign() == 0 || need.Cmp(big.NewInt(int64(len(c.Args)))) > 0 {
			m.mustFail(P("C01", "C11"), "the call announces %v tokens but carries %d arguments", cnt, len(c.Args))
			return
		}
		n := int(cnt.Int64())
		minArgs := 3*n + 2
		hasCall := len(c.Args) > minArgs
		isLocal := m.local(dst)
		if isLocal && m.payableGate(dst, m.payExempt(minArgs)) {
			return
		}
		fn := m.cost("ESDTNFTMultiTransfer")
		dc := m.base("DataCopyPerByte")
		chargeLo := uint64(n) * fn
		chargeHi := chargeLo
		chargeMid := chargeLo
		outArgs := [][]byte{nil}
		checks := map[int]func([]byte) string{0: func(b []byte) string {
			if be(b).Cmp(cnt) != 0 {
				return fmt.Sprintf("announces %v tokens, the call moved %v", be(b), cnt)
			}
			return ""
		}}
		var moved []Carry
		// propsDiffer: an NFT entry moves inside the shard between holders whose properties differ in
		// length (a frozen single NFT is involved): which of the two the priced bytes carry is open
		propsDiffer := false
		for i := 0; i < n; i++ {
			token, nonce, qty := c.Args[2+3*i], lowU64(c.Args[3+3*i]), be(c.Args[4+3*i])
			if qty.Sign() == 0 {
				// silent case: a zero quantity inside a multi-transfer (the tree rejects it)
				m.gaveUp = "zero quantity in a multi-transfer"
				return
			}
			before := m.debit(c.Caller, token, nonce, qty, P("C01"))
			if before == nil || m.vd.MustFail != "" || m.gaveUp != "" {
				return
			}
			moved = append(moved, Carry{Token: token, Nonce: nonce, Amount: qty})
			if nonce > 0 {
				t := CloneToken(before)
				t.Value = qty
				l := uint64(len(EncodeToken(t)))
				chargeMid += dc * l
				chargeHi += dc * l
			}
			if isLocal {
				var dstPrev *big.Int
				if t, _ := m.getTok(dst, TokenKey(token, nonce)); t != nil {
					if nonce > 0 && len(t.Properties) != len(before.Properties) {
						propsDiffer = true
					}
					if t.Value != nil {
						dstPrev = new(big.Int).Set(t.Value)
					}
				} else if nonce > 0 && len(before.Properties) > 0 {
					propsDiffer = true
				}
				if !m.credit(dst, token, nonce, qty, before) {
					return
				}
				if nonce > 0 && dstPrev != nil {
					t := CloneToken(before)
					t.Value = new(big.Int).Add(qty, dstPrev)
					t2 := CloneToken(before)
					t2.Value = qty
					chargeHi += dc * uint64(len(EncodeToken(t))-len(EncodeToken(t2)))
				}
			} else {
				k := len(outArgs)
				outArgs = append(outArgs, token, nil, nil)
				nn, qq, bb := nonce, qty, before
				checks[k+1] = func(b []byte) string {
					if lowU64(b) != nn || len(b) > 8 {
						return fmt.Sprintf("nonce %x, the ledger debited nonce %d", b, nn)
					}
					return ""
				}
				if nonce > 0 {
					checks[k+2] = payloadCheck(bb, qq)
				} else {
					checks[k+2] = func(b []byte) string {
						if be(b).Cmp(qq) != 0 {
							return fmt.Sprintf("value %v, the ledger debited %v", be(b), qq)
						}
						return ""
					}
				}
			}
		}
		m.vd.Moved = moved
		m.vd.MovedTo = dst
		if isLocal {
			if propsDiffer {
				// (no exact price is demanded for this call)
			} else if chargeHi != chargeMid {
				m.setCharge(chargeLo, chargeMid, chargeHi)
			} else {
				m.setCharge(chargeLo, chargeMid)
			}
			if hasCall && IsContract(dst) {
				if !validCallName(c.Args[minArgs]) {
					m.anyOut = true
					return
				}
				m.expOut = append(m.expOut, expTransfer{to: dst, sender: c.Caller, fn: string(c.Args[minArgs]), args: c.Args[minArgs+1:],
					gasAll: true, callType: c.CallType, gasLock: c.GasLocked, value: big.NewInt(0), kind: "terminal"})
			}
			return
		}
		m.setCharge(chargeMid)
		outArgs = append(outArgs, c.Args[minArgs:]...)
		e := expTransfer{to: dst, sender: c.Caller, fn: FnMultiTransfer, args: outArgs, argCheck: checks,
			callType: c.CallType, gasLock: c.GasLocked, value: big.NewInt(0), kind: "cont", carries: moved}
		if hasCall && IsContract(dst) {
			e.gasAll = true
		} else {
			e.gasZero = true
		}
		m.expOut = append(m.expOut, e)
		return
	}
	// destination side
	if c.HasSnd {
		m.mustFail(P("C03", "C01"), "the destination-side path ran although the sender account %x is local (a credit nobody debited)", c.Caller)
		return
	}
	if !c.HasDst {
		m.gaveUp = "destination-side call without destination account"
		return
	}
	m.vd.Side = "dest"
	cnt := new(big.Int).SetUint64(lowU64(c.Args[0]))
	need := new(big.Int).Mul(cnt, big.NewInt(3))
	need.Add(need, big.NewInt(1))
	if cnt.Sign() == 0 || need.Cmp(big.NewInt(int64(len(c.Args)))) > 0 {
		m.mustFail(P("C01", "C11"), "the message announces %v tokens but carries %d arguments", cnt, len(c.Args))
		return
	}
	n := int(cnt.Int64())
	minArgs := 3*n + 1
	if m.payableGate(c.Recipient, m.payExempt(minArgs)) {
		return
	}
	var moved []Carry
	for i := 0; i < n; i++ {
		token, nonce := c.Args[1+3*i], lowU64(c.Args[2+3*i])
		if nonce > 0 {
			p, err := DecodeToken(c.Args[3+3*i])
			if err != nil || p.Meta == nil || p.Value == nil || p.Meta.Nonce != nonce || p.Value.Sign() < 0 {
				m.gaveUp = "destination-side payload is not a well-formed NFT entry of the announced nonce (not protocol-generated)"
				return
			}
			moved = append(moved, Carry{Token: token, Nonce: nonce, Amount: p.Value})
			if !m.credit(c.Recipient, token, nonce, p.Value, p) {
				return
			}
		} else {
			v := be(c.Args[3+3*i])
			moved = append(moved, Carry{Token: token, Nonce: 0, Amount: v})
			if !m.credit(c.Recipient, token, 0, v, nil) {
				return
			}
		}
	}
	m.vd.Moved = moved
	m.vd.MovedTo = c.Recipient
	if c.Mint {
		m.vd.SupplyDelta = append(m.vd.SupplyDelta, moved...)
	}
	if len(c.Args) > minArgs && IsContract(c.Recipient) {
		if !validCallName(c.Args[minArgs]) {
			m.anyOut = true
			return
		}
		m.expOut = append(m.expOut, expTransfer{to: c.Recipient, sender: c.Caller, fn: string(c.Args[minArgs]), args: c.Args[minArgs+1:],
			gasAll: true, callType: c.CallType, gasLock: c.GasLocked, value: big.NewInt(0), kind: "terminal"})
	}
}

// ---------------- local mint / burn, burn ----------------

func (m *model) needRole(addr []byte, token []byte, role string) bool {
	r, err := m.getRoles(addr, token)
	if err != nil {
		m.gaveUp = "role list does not decode"
		return false
	}
	if !hasRole(r, role) {
		props := P("C03")
		switch m.c.Func {
		case FnNFTAddURI, FnNFTUpdateAttrs:
			props = append(props, "C08") // only a role holder may alter metadata
		case FnNFTCreate:
			props = append(props, "C07")
		case FnLocalMint, FnLocalBurn, FnNFTAddQuantity, FnNFTBurn:
			props = append(props, "C02")
		}
		m.mustFail(props, "%x does not hold role %s for token %q (holds %q)", addr, role, token, sortedRoles(r))
		return false
	}
	return true
}

func (m *model) selfCall() bool {
	// the local supply / NFT management functions act on the caller's own account
	return m.c.HasSnd
}

func (m *model) localMintBurn(mint bool) {
	c := m.c
	if len(c.Args) < 2 {
		return
	}
	if !m.selfCall() {
		m.mustFail(P("C03", "C05"), "a local supply operation ran without the caller's account (recipient %x, caller %x)", c.Recipient, c.Caller)
		return
	}
	token, amt := c.Args[0], be(c.Args[1])
	role, costName := RoleLocalBurn, "ESDTLocalBurn"
	if mint {
		role, costName = RoleLocalMint, "ESDTLocalMint"
	}
	if !m.needRole(c.Caller, token, role) {
		return
	}
	if amt.Sign() == 0 {
		m.anyOut = true
		return
	}
	m.setCharge(m.cost(costName))
	if mint {
		// amounts longer than 100 bytes: rejection or exact mint (silent case)
		key := TokenKey(token, 0)
		t, err := m.getTok(c.Caller, key)
		if err != nil {
			m.gaveUp = err.Error()
			return
		}
		if t != nil && !belongs(t, 0) {
			m.mustFail(P("C02", "C15"), "the entry under %q of %x is not a fungible entry", key, c.Caller)
			return
		}
		if m.gate(c.Caller, token, t, "minting") {
			return
		}
		if t == nil {
			t = &Token{Value: big.NewInt(0)}
		}
		t.Value.Add(t.Value, amt)
		m.setTok(c.Caller, key, t)
		m.vd.SupplyDelta = []Carry{{Token: token, Amount: amt}}
		return
	}
	if m.debit(c.Caller, token, 0, amt, nil) == nil {
		return
	}
	m.vd.SupplyDelta = []Carry{{Token: token, Amount: new(big.Int).Neg(amt)}}
}

func (m *model) burn() {
	c := m.c
	if len(c.Args) < 2 {
		return
	}
	if !c.HasSnd {
		m.mustFail(P("C02", "C03"), "a burn ran without the burning account being local")
		return
	}
	if !bytes.Equal(c.Recipient, ESDTSystemSC) {
		// a burn not addressed to the system contract: the statements only speak of the balance
		m.anyOut = true
	}
	if len(c.Args) != 2 {
		m.gaveUp = "burn with extra arguments"
		return
	}
	token, amt := c.Args[0], be(c.Args[1])
	if amt.Sign() == 0 {
		m.anyOut = true
		return
	}
	if m.debit(c.Caller, token, 0, amt, nil) == nil {
		return
	}
	m.setCharge(m.cost("ESDTBurn"))
	m.vd.SupplyDelta = []Carry{{Token: token, Amount: new(big.Int).Neg(amt)}}
	if IsContract(c.Caller) {
		m.expOut = append(m.expOut, expTransfer{to: c.Recipient, sender: c.Caller, fn: FnBurn, args: c.Args,
			gasAll: true, callType: c.CallType, gasLock: c.GasLocked, value: big.NewInt(0), kind: "terminal"})
	}
}

// ---------------- NFT create / add quantity / burn / metadata ----------------

func sumLen(args [][]byte) uint64 {
	s := uint64(0)
	for _, a := range args {
		s += uint64(len(a))
	}
	return s
}

func (m *model) nftCreate() {
	c := m.c
	if len(c.Args) < 2 {
		return
	}
	if !m.selfCall() {
		m.mustFail(P("C03", "C05"), "an NFT create ran without the caller's account (recipient %x, caller %x)", c.Recipient, c.Caller)
		return
	}
	token := c.Args[0]
	if !m.needRole(c.Caller, token, RoleNFTCreate) {
		return
	}
	if len(c.Args) < 7 {
		// token, quantity, name, royalties, hash, attributes, at least one URI
		m.gaveUp = "create with fewer than seven arguments"
		return
	}
	qty := be(c.Args[1])
	if qty.Sign() == 0 {
		m.mustFail(P("C02"), "a create of quantity 0 creates nothing")
		return
	}
	if qty.Cmp(big.NewInt(1)) > 0 && !m.needRole(c.Caller, token, RoleNFTAddQuantity) {
		return
	}
	if m.gate(c.Caller, token, nil, "creating") {
		return
	}
	cur := m.getCounter(c.Caller, token)
	next := cur + 1
	if next == 0 {
		m.gaveUp = "counter wrap"
		return
	}
	key := TokenKey(token, next)
	if raw := m.preRaw(c.Caller, key); len(raw) != 0 && !isPlaceholder(raw) {
		m.mustFail(P("C07", "C02", "C15"), "the creator already holds an entry under nonce %d of %q (counter %d): the create would not be under a fresh nonce (the counter is behind an issued nonce)", next, token, cur)
		return
	}
	roy := be(c.Args[3])
	meta := &Meta{Nonce: next, Name: c.Args[2], Creator: c.Caller, Hash: c.Args[4], Attributes: c.Args[5], URIs: c.Args[6:]}
	royaltyFree := false
	if roy.Cmp(big.NewInt(MaxRoyalty)) <= 0 {
		meta.Royalties = uint32(roy.Uint64())
	} else {
		royaltyFree = true // silent: rejection, or any recorded value <= 10000
	}
	m.tok[id(c.Caller, key)] = &Token{Type: 1, Value: qty, Meta: meta}
	m.counter[id(c.Caller, CounterKey(token))] = []uint64{next}
	m.setCharge(m.cost("ESDTNFTCreate") + m.base("StorePerByte")*sumLen(c.Args))
	m.vd.SupplyDelta = []Carry{{Token: token, Nonce: next, Amount: qty}}
	m.vd.IssuedToken, m.vd.IssuedNonce = token, next
	if !c.OK {
		return
	}
	if royaltyFree {
		if raw := c.Post.Get(string(c.Caller)).Storage[key]; len(raw) > 0 {
			if got, err := DecodeToken(raw); err == nil && got.Meta != nil {
				if got.Meta.Royalties > MaxRoyalty {
					m.vd.add(P("C08"), "royalties", "create recorded royalties %d > %d (argument %v)", got.Meta.Royalties, MaxRoyalty, roy)
				}
				meta.Royalties = got.Meta.Royalties
			}
		}
	}
	if len(c.ReturnData) != 1 || len(c.ReturnData[0]) > 8 || lowU64(c.ReturnData[0]) != next {
		m.vd.add(P("C07"), "create-return", "create returned %x, expected nonce %d (previous counter %d)", c.ReturnData, next, cur)
	}
	// the create log carries the stored bytes (C08)
	stored := c.Post.Get(string(c.Caller)).Storage[key]
	okLog := false
	for _, l := range c.Logs {
		if string(l.Identifier) == FnNFTCreate && len(l.Topics) >= 3 && bytes.Equal(l.Topics[0], token) && lowU64(l.Topics[1]) == next && bytes.Equal(l.Topics[2], stored) {
			okLog = true
		}
	}
	if !okLog {
		m.vd.add(P("C08"), "create-log", "the create log does not carry token, nonce %d and the stored bytes %x: %v", next, stored, fmtLogs(c.Logs))
	}
}

func fmtLogs(ls []LogEntry) string {
	s := ""
	for _, l := range ls {
		s += fmt.Sprintf("{id=%q addr=%x topics=%x}", l.Identifier, l.Address, l.Topics)
	}
	return s
}

// ownEntry fetches the caller's entry of (token, nonce) for the role-gated NFT functions.
func (m *model) ownEntry(token []byte, nonce uint64) (*Token, string) {
	key := TokenKey(token, nonce)
	t, err := m.getTok(m.c.Caller, key)
	if err != nil {
		m.gaveUp = err.Error()
		return nil, key
	}
	if t == nil {
		return nil, key
	}
	if nonce == 0 || !belongs(t, nonce) {
		m.mustFail(P("C05", "C15", "C08"), "the entry under %q of %x is not the NFT entry of (%q,%d): %v", key, m.c.Caller, token, nonce, t)
		return nil, key
	}
	return t, key
}

func (m *model) nftAddBurn(add bool) {
	c := m.c
	if len(c.Args) < 3 {
		return
	}
	if !m.selfCall() {
		m.mustFail(P("C03", "C05"), "an NFT quantity operation ran without the caller's account (recipient %x, caller %x)", c.Recipient, c.Caller)
		return
	}
	token, nonce, qty := c.Args[0], lowU64(c.Args[1]), be(c.Args[2])
	role, costName := RoleNFTBurn, "ESDTNFTBurn"
	if add {
		role, costName = RoleNFTAddQuantity, "ESDTNFTAddQuantity"
	}
	if !m.needRole(c.Caller, token, role) {
		return
	}
	t, key := m.ownEntry(token, nonce)
	if m.vd.MustFail != "" || m.gaveUp != "" {
		return
	}
	if t == nil {
		m.mustFail(P("C02", "C08"), "%x holds no entry (%q,%d)", c.Caller, token, nonce)
		return
	}
	m.setCharge(m.cost(costName))
	if qty.Sign() == 0 {
		// silent case: no-op success or rejection; a success must change nothing
		m.tok[id(c.Caller, key)] = t
		return
	}
	if !add && t.Value.Cmp(qty) < 0 {
		m.mustFail(P("C02"), "%x holds %v of (%q,%d) and %v is to be burnt", c.Caller, t.Value, token, nonce, qty)
		return
	}
	if m.gate(c.Caller, token, t, "quantity-changing") {
		return
	}
	if add {
		t.Value.Add(t.Value, qty)
		m.vd.SupplyDelta = []Carry{{Token: token, Nonce: nonce, Amount: qty}}
	} else {
		t.Value.Sub(t.Value, qty)
		m.vd.SupplyDelta = []Carry{{Token: token, Nonce: nonce, Amount: new(big.Int).Neg(qty)}}
	}
	m.setTok(c.Caller, key, t)
}

func (m *model) nftMetaUpdate(addURI bool) {
	c := m.c
	if len(c.Args) < 3 {
		return
	}
	if !m.selfCall() {
		m.mustFail(P("C03", "C05"), "an NFT metadata operation ran without the caller's account (recipient %x, caller %x)", c.Recipient, c.Caller)
		return
	}
	token, nonce := c.Args[0], lowU64(c.Args[1])
	role := RoleNFTUpdateAttrs
	if addURI {
		role = RoleNFTAddURI
	}
	if !m.needRole(c.Caller, token, role) {
		return
	}
	if !addURI && len(c.Args) != 3 {
		m.gaveUp = "update attributes with extra arguments"
		return
	}
	t, key := m.ownEntry(token, nonce)
	if m.vd.MustFail != "" || m.gaveUp != "" {
		return
	}
	if t == nil {
		m.mustFail(P("C08"), "%x holds no entry (%q,%d) whose metadata could be updated", c.Caller, token, nonce)
		return
	}
	if m.gate(c.Caller, token, t, "metadata-updating") {
		return
	}
	if addURI {
		for _, u := range c.Args[2:] {
			t.Meta.URIs = append(t.Meta.URIs, u)
		}
		m.setCharge(m.cost("ESDTNFTAddURI") + m.base("StorePerByte")*sumLen(c.Args[2:]))
	} else {
		t.Meta.Attributes = c.Args[2]
		m.setCharge(m.cost("ESDTNFTUpdateAttributes") + m.base("StorePerByte")*uint64(len(c.Args[2])))
	}
	m.tok[id(c.Caller, key)] = t
}

// ---------------- system-contract control functions ----------------

func (m *model) needSystemCaller(what string) bool {
	if !bytes.Equal(m.c.Caller, ESDTSystemSC) {
		m.mustFail(P("C03"), "%s was called by %x, not by the ESDT system contract", what, m.c.Caller)
		return false
	}
	return true
}

func (m *model) freezeWipe() {
	c := m.c
	if !m.needSystemCaller(c.Func) {
		return
	}
	if len(c.Args) != 1 || !c.HasDst {
		m.gaveUp = "control call with unexpected shape"
		return
	}
	token := c.Args[0]
	key := TokenKey(token, 0)
	t, err := m.getTok(c.Recipient, key)
	if err != nil {
		m.gaveUp = err.Error()
		return
	}
	switch c.Func {
	case FnWipe:
		if t == nil || !isFrozenProps(t.Properties) {
			m.mustFail(P("C02", "C04"), "a wipe of %x for %q ran although the account is not frozen", c.Recipient, token)
			return
		}
		m.tok[id(c.Recipient, key)] = nil
		if t.Value != nil && t.Value.Sign() != 0 {
			m.vd.SupplyDelta = []Carry{{Token: token, Amount: new(big.Int).Neg(t.Value)}}
		}
	case FnFreeze:
		if t == nil {
			t = &Token{Value: big.NewInt(0)}
		}
		t.Properties = []byte{1, 0}
		m.tok[id(c.Recipient, key)] = t
	case FnUnFreeze:
		if t == nil {
			m.tok[id(c.Recipient, key)] = nil
			return
		}
		t.Properties = []byte{0, 0}
		m.setTok(c.Recipient, key, t)
	}
}

func (m *model) pauseFn() {
	c := m.c
	if !m.needSystemCaller(c.Func) {
		return
	}
	if len(c.Args) != 1 {
		m.gaveUp = "control call with unexpected shape"
		return
	}
	if len(c.Recipient) < 30 || !bytes.Equal(c.Recipient[:30], SystemAccount[:30]) {
		m.mustFail(P("C03", "C05"), "a pause was addressed to %x, not to the system account", c.Recipient)
		return
	}
	m.pause[id(SystemAccount, TokenPrefix+string(c.Args[0]))] = c.Func == FnPause
}

func (m *model) rolesFn() {
	c := m.c
	if len(c.Args) < 2 {
		return
	}
	if !m.needSystemCaller(c.Func) {
		return
	}
	if !c.HasDst {
		m.gaveUp = "control call with unexpected shape"
		return
	}
	token := c.Args[0]
	r, err := m.getRoles(c.Recipient, token)
	if err != nil {
		m.gaveUp = "role list does not decode"
		return
	}
	nr := &Roles{}
	if r != nil {
		nr.Roles = append(nr.Roles, r.Roles...)
	}
	if c.Func == FnSetRole {
		nr.Roles = append(nr.Roles, c.Args[1:]...)
	} else {
		for _, d := range c.Args[1:] {
			for i, x := range nr.Roles {
				if bytes.Equal(x, d) {
					nr.Roles = append(append([][]byte{}, nr.Roles[:i]...), nr.Roles[i+1:]...)
					break
				}
			}
		}
	}
	if len(nr.Roles) == 0 {
		nr = nil
	}
	m.roles[id(c.Recipient, RoleKey(token))] = nr
}

func (m *model) createRoleTransfer() {
	c := m.c
	if len(c.Args) < 2 {
		return
	}
	if c.HasSnd {
		m.mustFail(P("C03", "C07"), "the create-role hand-over ran although its caller's account %x is local (only the system contract or its hand-over message may run it)", c.Caller)
		return
	}
	if !c.HasDst {
		m.gaveUp = "hand-over without an account"
		return
	}
	if len(c.Args) != 2 {
		m.gaveUp = "hand-over with unexpected shape"
		return
	}
	token := c.Args[0]
	rk := RoleKey(token)
	ck := CounterKey(token)
	withRole := func(addr []byte, add bool) *Roles {
		r, err := m.getRoles(addr, token)
		if err != nil {
			m.gaveUp = "role list does not decode"
			return nil
		}
		nr := &Roles{}
		has := false
		if r != nil {
			for _, x := range r.Roles {
				if string(x) == RoleNFTCreate {
					if add && !has {
						has = true
						nr.Roles = append(nr.Roles, x)
					}
					if !add {
						// removal takes out one occurrence (lists hold no duplicates under discipline)
						if !has {
							has = true
							continue
						}
						nr.Roles = append(nr.Roles, x)
					}
					continue
				}
				nr.Roles = append(nr.Roles, x)
			}
		}
		if add && !has {
			nr.Roles = append(nr.Roles, []byte(RoleNFTCreate))
		}
		if len(nr.Roles) == 0 {
			return nil
		}
		return nr
	}
	if bytes.Equal(c.Caller, ESDTSystemSC) {
		// at the current holder
		next := c.Args[1]
		if len(next) != len(c.Caller) {
			m.gaveUp = "hand-over to an address of another length"
			return
		}
		cur := m.getCounter(c.Recipient, token)
		m.counter[id(c.Recipient, ck)] = []uint64{0}
		m.roles[id(c.Recipient, rk)] = withRole(c.Recipient, false)
		if m.local(next) && !bytes.Equal(next, c.Recipient) {
			stored := m.getCounter(next, token)
			acc := []uint64{cur}
			if stored > cur {
				acc = append(acc, stored)
			}
			m.counter[id(next, ck)] = acc
			m.roles[id(next, rk)] = withRole(next, true)
		} else if bytes.Equal(next, c.Recipient) {
			m.gaveUp = "hand-over to the current holder itself"
			return
		}
		cc := cur
		m.expOut = append(m.expOut, expTransfer{to: next, fn: FnCreateRoleTransfer, args: [][]byte{token, nil}, ctAny: true,
			argCheck: map[int]func([]byte) string{1: func(b []byte) string {
				if len(b) > 8 || lowU64(b) != cc {
					return fmt.Sprintf("ships counter %x, the old holder's counter was %d", b, cc)
				}
				return ""
			}}, kind: "cont", value: big.NewInt(0)})
		return
	}
	// at the next holder: the message carries the counter
	shipped := lowU64(c.Args[1])
	if len(c.Args[1]) > 8 {
		m.gaveUp = "hand-over message with an oversized counter (not protocol-generated)"
		return
	}
	stored := m.getCounter(c.Recipient, token)
	acc := []uint64{shipped}
	if stored > shipped {
		acc = []uint64{stored, shipped}
	}
	m.counter[id(c.Recipient, ck)] = acc
	m.roles[id(c.Recipient, rk)] = withRole(c.Recipient, true)
}

// ---------------- account-level functions ----------------

func (m *model) changeOwner() {
	c := m.c
	if len(c.Args) < 1 {
		return
	}
	cost := m.cost("ChangeOwnerAddress")
	if c.HasSnd {
		m.setCharge(cost)
	}
	if !c.HasDst {
		return
	}
	owner := c.Pre.Get(string(c.Recipient)).Owner
	if !bytes.Equal(c.Caller, owner) {
		m.mustFail(P("C03"), "%x changed the owner of %x whose owner is %x", c.Caller, c.Recipient, owner)
		return
	}
	if len(c.Args[0]) != len(c.Caller) {
		m.gaveUp = "new owner of another length"
		return
	}
	m.expFields(c.Recipient).Owner = c.Args[0]
}

func (m *model) claimRewards() {
	c := m.c
	if c.HasSnd {
		m.setCharge(m.cost("ClaimDeveloperRewards"))
		if IsContract(c.Caller) && c.CallType == CallAsync {
			// silent case: a same-shard contract claiming through an asynchronous call; the gas that
			// would travel with the callback has no message to travel in (all of it may be consumed)
			m.setCharge(m.cost("ClaimDeveloperRewards"), c.Gas)
		}
	}
	if !c.HasDst {
		return
	}
	pre := c.Pre.Get(string(c.Recipient))
	if !bytes.Equal(c.Caller, pre.Owner) {
		m.mustFail(P("C03"), "%x claimed the developer rewards of %x whose owner is %x", c.Caller, c.Recipient, pre.Owner)
		return
	}
	reward := new(big.Int).Set(pre.DevReward)
	m.expFields(c.Recipient).DevReward = big.NewInt(0)
	if c.HasSnd {
		f := m.expFields(c.Caller)
		f.Balance = new(big.Int).Add(f.Balance, reward)
	}
	if c.HasSnd && IsContract(c.Caller) {
		return
	}
	e := expTransfer{to: c.Caller, sender: c.Caller, noData: true, value: reward, kind: "terminal", callType: CallDirect}
	if c.CallType == CallAsync {
		e.callType = CallCallBack
		e.gasAll = true
		e.gasLock = c.GasLocked
	} else {
		e.gasZero = true
	}
	m.expOut = append(m.expOut, e)
}

func (m *model) setUserName() {
	c := m.c
	if !m.env.DNS[string(c.Caller)] {
		m.mustFail(P("C03"), "%x is not a configured DNS address", c.Caller)
		return
	}
	if len(c.Args) != 1 {
		m.gaveUp = "user name call with unexpected shape"
		return
	}
	if !c.HasDst {
		m.expOut = append(m.expOut, expTransfer{to: c.Recipient, sender: c.Caller, fn: FnSetUserName, args: c.Args, gasAll: true,
			callType: CallAsync, gasLock: c.GasLocked, value: big.NewInt(0), kind: "cont"})
		return
	}
	m.expFields(c.Recipient).UserName = c.Args[0]
	m.setCharge(m.cost("SaveUserName"))
}

func (m *model) saveKeyValue() {
	c := m.c
	if len(c.Args) < 2 || len(c.Args)%2 != 0 {
		return
	}
	if !c.HasSnd || !bytes.Equal(c.Caller, c.Recipient) {
		m.mustFail(P("C05"), "key-value save by %x addressed to %x (only an account writing to itself is accepted)", c.Caller, c.Recipient)
		return
	}
	if IsContract(c.Caller) {
		m.mustFail(P("C05"), "key-value save by contract %x", c.Caller)
		return
	}
	for i := 0; i < len(c.Args); i += 2 {
		if len(c.Args[i]) >= len(ProtectedPrefix) && string(c.Args[i][:len(ProtectedPrefix)]) == ProtectedPrefix {
			props := P("C05", "C15")
			k := string(c.Args[i])
			switch {
			case strings.HasPrefix(k, RolePrefix):
				props = append(props, "C03") // a role list written by somebody who is not the system contract
			case strings.HasPrefix(k, NoncePrefix):
				props = append(props, "C07")
			case strings.HasPrefix(k, TokenPrefix):
				props = append(props, "C02", "C04") // a token entry rewritten outside the supply functions and past the freeze/pause gate
			}
			m.mustFail(props, "key %q begins with the protected prefix", c.Args[i])
			return
		}
	}
	charge := m.cost("SaveKeyValue")
	cur := map[string][]byte{}
	for i := 0; i < len(c.Args); i += 2 {
		k, v := string(c.Args[i]), c.Args[i+1]
		old, seen := cur[k]
		if !seen {
			old = m.preRaw(c.Caller, k)
		}
		charge += m.base("PersistPerByte") * uint64(len(k)+len(v))
		if !bytes.Equal(old, v) && len(v) > len(old) {
			charge += m.base("StorePerByte") * uint64(len(v)-len(old))
		}
		cur[k] = v
		if len(v) == 0 {
			m.raw[id(c.Caller, k)] = nil
		} else {
			m.raw[id(c.Caller, k)] = v
		}
	}
	m.setCharge(charge)
}

// isPlaceholder: a zero-balance entry without metadata (what a single-NFT freeze leaves at an
// account that does not hold the nonce): it holds nothing.
func isPlaceholder(raw []byte) bool {
	t, err := DecodeToken(raw)
	return err == nil && t.Meta == nil && (t.Value == nil || t.Value.Sign() == 0)
}
