package world

import (
	"bytes"
	"encoding/hex"
	"fmt"
	"math/big"
	"runtime"
	"runtime/metrics"
	"sort"
	"strings"

	vmcommon "github.com/ElrondNetwork/elrond-vm-common"
	"github.com/ElrondNetwork/elrond-vm-common/parsers"

	"verifsim/spec"
)

// Message kinds.
const (
	KindUserTx       = "tx"       // client / contract transaction executed on the caller's shard
	KindContinuation = "cont"     // built-in continuation on another shard
	KindControl      = "control"  // system-contract control message
	KindRefund       = "refund"   // return-after-error refund
	KindTerminal     = "terminal" // attached contract call / value-only / metachain-bound: never executed
	KindIntra        = "intra"    // built-in named output transfer addressed to the executing shard
)

// Msg is one transaction or in-flight message.
type Msg struct {
	ID        string
	Kind      string
	Snd       []byte
	Rcv       []byte
	Data      string // raw data string (function@hex...)
	Value     *big.Int
	Gas       uint64
	GasLocked uint64
	CallType  vmcommon.CallType
	ReturnErr bool
	DstShard  uint32
	SrcShard  uint32
	// ghost: what the oracle says this message carries (set when the emitting call was judged)
	Carries []spec.Carry
	// Mint marks a system-contract credit (issue): supply grows when it is delivered
	Mint bool
	// origin of a continuation, for refund construction
	OrigCallType vmcommon.CallType
	Tag          string // free-form class used by the scheduler (e.g. "handover")
}

// Exec is the record of one executed call.
type Exec struct {
	Msg       *Msg
	Shard     uint32
	Parsed    bool
	ParseErr  string
	Found     bool
	Active    bool
	Func      string
	Args      [][]byte
	Input     *vmcommon.ContractCallInput
	HasSnd    bool
	HasDst    bool
	Pre       spec.ShardState
	Post      spec.ShardState
	Out       *vmcommon.VMOutput
	Err       error
	Panic     string
	Alloc     uint64
	Deps      [NumDepKinds]int
	FaultHit  bool
	HitAddr   []byte
	HitKey    string
	HitReads  int    // how often the failed key was read during the call
	InputMut  string // non-empty: the call modified its input (C13)
	Emitted   []*Msg
	Transfers []spec.OutTransfer
	backing   []byte // the one buffer all argument slices of the input point into
}

// Succeeded says whether the call returned success.
func (e *Exec) Succeeded() bool { return e.Panic == "" && e.Err == nil && e.Out != nil }

var callParser = parsers.NewCallArgsParser()

var allocSample = []metrics.Sample{{Name: "/gc/heap/allocs:bytes"}}

// ExactAlloc switches the per-call allocation measurement to runtime.ReadMemStats (exact, but it
// stops the world): used to confirm a suspicion raised by the cheap runtime/metrics reading, whose
// per-size-class counters are flushed lazily and can attribute earlier allocations to a later call.
var ExactAlloc bool

func heapAllocs() uint64 {
	if ExactAlloc {
		var ms runtime.MemStats
		runtime.ReadMemStats(&ms)
		return ms.TotalAlloc
	}
	metrics.Read(allocSample)
	return allocSample[0].Value.Uint64()
}

// argBuffer lays the arguments out in one backing array with spare capacity and canary bytes
// after every argument, so that an append or an in-place write by the callee is visible (C13).
func argBuffer(args [][]byte) ([][]byte, []byte) {
	total := 0
	for _, a := range args {
		total += len(a) + 4
	}
	buf := make([]byte, total)
	out := make([][]byte, len(args))
	off := 0
	for i, a := range args {
		copy(buf[off:], a)
		out[i] = buf[off : off+len(a) : off+len(a)+4] // 4 bytes spare capacity
		off += len(a)
		for j := 0; j < 4; j++ {
			buf[off+j] = 0xC5
		}
		off += 4
	}
	return out, buf
}

// Execute runs one message through the node pipeline: parse, look up, select accounts, snapshot,
// call under recover, commit or roll back, turn outputs into messages.
func (nd *Node) Execute(m *Msg, faultKind, faultK int) *Exec {
	ex := &Exec{Msg: m, Shard: nd.ID}
	fn, args, err := callParser.ParseData(m.Data)
	if err != nil {
		ex.ParseErr = err.Error()
		return ex
	}
	ex.Parsed = true
	ex.Func = fn
	ex.Args = args
	bf, err := nd.Container.Get(fn)
	if err != nil {
		return ex
	}
	ex.Found = true
	if !bf.IsActive() {
		return ex
	}
	ex.Active = true

	bufArgs, backing := argBuffer(args)
	ex.backing = backing
	backingCopy := append([]byte{}, backing...)
	value := m.Value
	if value == nil {
		value = big.NewInt(0)
	}
	in := &vmcommon.ContractCallInput{
		VMInput: vmcommon.VMInput{
			CallerAddr:           append([]byte{}, m.Snd...),
			Arguments:            bufArgs,
			CallValue:            new(big.Int).Set(value),
			CallType:             m.CallType,
			GasPrice:             1,
			GasProvided:          m.Gas,
			GasLocked:            m.GasLocked,
			ReturnCallAfterError: m.ReturnErr,
		},
		RecipientAddr: append([]byte{}, m.Rcv...),
		Function:      fn,
	}
	ex.Input = in

	var hs, hd *Handle
	var acntSnd, acntDst vmcommon.UserAccountHandler
	if ShardOf(m.Snd, nd.N) == nd.ID && len(m.Snd) > 0 {
		hs = nd.Store.LoadForPipeline(m.Snd)
		acntSnd = hs
		ex.HasSnd = true
	}
	if ShardOf(m.Rcv, nd.N) == nd.ID && len(m.Rcv) > 0 || m.Kind == KindControl && spec.IsSystemAccountShaped(m.Rcv) {
		if hs != nil && bytes.Equal(m.Snd, m.Rcv) {
			hd = hs
		} else {
			hd = nd.Store.LoadForPipeline(m.Rcv)
		}
		acntDst = hd
		ex.HasDst = true
	}
	if nd.Cfg.TypedNilAccounts {
		// "no account on this shard" as a handle whose pointer is nil
		if hs == nil {
			acntSnd = (*Handle)(nil)
		}
		if hd == nil {
			acntDst = (*Handle)(nil)
		}
	}

	ex.Pre = spec.ShardState(nd.Store.Accts).Clone()
	snap := nd.Store.JournalLen()
	nd.Store.PauseLookupSoft = fn != vmcommon.BuiltInFunctionESDTPause && fn != vmcommon.BuiltInFunctionESDTUnPause
	nd.Faults.Reset(faultKind, faultK)
	nd.Faults.Alt = nd.FaultAlt

	a0 := heapAllocs()
	func() {
		defer func() {
			if r := recover(); r != nil {
				ex.Panic = fmt.Sprint(r)
			}
		}()
		ex.Out, ex.Err = bf.ProcessBuiltinFunction(acntSnd, acntDst, in)
	}()
	ex.Alloc = heapAllocs() - a0
	ex.Deps = nd.Faults.Count
	ex.FaultHit = nd.Faults.Fired
	ex.HitAddr, ex.HitKey = nd.Faults.HitAddr, nd.Faults.HitKey
	if nd.Faults.Reads != nil {
		ex.HitReads = nd.Faults.Reads[string(ex.HitAddr)+"\x00"+ex.HitKey]
	}
	nd.Faults.Reset(-1, 0)

	// input purity (C13): argument bytes, their spare capacity, the slice headers and scalar fields
	if !bytes.Equal(backing, backingCopy) {
		ex.InputMut = "argument bytes or their spare capacity were written"
	} else if len(in.Arguments) != len(args) {
		ex.InputMut = "argument list length changed"
	} else {
		for i := range args {
			if !bytes.Equal(in.Arguments[i], args[i]) {
				ex.InputMut = fmt.Sprintf("argument %d changed", i)
			}
		}
		if !bytes.Equal(in.CallerAddr, m.Snd) || !bytes.Equal(in.RecipientAddr, m.Rcv) || in.CallValue.Cmp(value) != 0 ||
			in.GasProvided != m.Gas || in.GasLocked != m.GasLocked || in.CallType != m.CallType || in.Function != fn || in.ReturnCallAfterError != m.ReturnErr {
			ex.InputMut = "a scalar/address field of the input changed"
		}
	}

	if ex.Succeeded() && ex.Out.ReturnCode == vmcommon.Ok {
		if hs != nil {
			nd.Store.SaveForPipeline(hs)
		}
		if hd != nil && hd != hs {
			nd.Store.SaveForPipeline(hd)
		}
		_, _ = nd.Store.Commit()
		ex.Transfers = FlattenTransfers(ex.Out)
	} else {
		_ = nd.Store.RevertToSnapshot(snap)
		_, _ = nd.Store.Commit()
	}
	ex.Post = spec.ShardState(nd.Store.Accts).Clone()
	return ex
}

// ReuseInput does what the owner of a call's input may do once the call has returned and its
// results have been read: the buffers are used again for something else. Nothing the library keeps
// may point into them.
func ReuseInput(ex *Exec) {
	for i := range ex.backing {
		ex.backing[i] = 0xA5
	}
	if in := ex.Input; in != nil {
		for i := range in.CallerAddr {
			in.CallerAddr[i] = 0xA5
		}
		for i := range in.RecipientAddr {
			in.RecipientAddr[i] = 0xA5
		}
		if in.CallValue != nil {
			in.CallValue.Add(in.CallValue, big.NewInt(1_000_000_007))
		}
	}
}

// ConsumeOutput does what the owner of a returned VMOutput may do with it: the library's own
// OutputAccount.MergeOutputAccounts adds into the receiver's numbers in place, so a host that keeps a
// returned account as its accumulator changes every number object the output holds. The output
// belongs to the caller; nothing the library keeps may be reachable through it (C13).
func ConsumeOutput(out *vmcommon.VMOutput) string {
	if out == nil {
		return ""
	}
	// the host first takes a checkpoint of every output account with the library's own merge (into an
	// empty account); the owner of the output then adds into its numbers and reuses its transfer list
	// in place; the checkpoint must still say what it said
	type cp struct {
		acc  *vmcommon.OutputAccount
		want string
	}
	render := func(a *vmcommon.OutputAccount) string {
		s := fmt.Sprintf("%x:", a.Address)
		for _, t := range a.OutputTransfers {
			s += fmt.Sprintf("[%q gas=%d locked=%d ct=%d snd=%x]", t.Data, t.GasLimit, t.GasLocked, t.CallType, t.SenderAddress)
		}
		return s
	}
	var cps []cp
	keys := make([]string, 0, len(out.OutputAccounts))
	for k := range out.OutputAccounts {
		keys = append(keys, k)
	}
	sort.Strings(keys)
	for _, k := range keys {
		if oa := out.OutputAccounts[k]; oa != nil {
			c := &vmcommon.OutputAccount{}
			c.MergeOutputAccounts(oa)
			cps = append(cps, cp{c, render(c)})
		}
	}
	bump := big.NewInt(1_000_000_007)
	// every number of the output is an object of its own: after the owner has added into each of them
	// once, each must have grown by exactly that much (two fields sharing one object grow twice)
	type num struct {
		p    *big.Int
		want *big.Int
		what string
	}
	var nums []num
	add := func(v *big.Int, what string) {
		nums = append(nums, num{v, new(big.Int).Add(v, bump), what})
		v.Add(v, bump)
	}
	for _, k := range keys {
		oa := out.OutputAccounts[k]
		if oa == nil {
			continue
		}
		if oa.Balance != nil {
			add(oa.Balance, fmt.Sprintf("balance of %x", oa.Address))
		}
		if oa.BalanceDelta != nil {
			add(oa.BalanceDelta, fmt.Sprintf("balance delta of %x", oa.Address))
		}
		for i := range oa.OutputTransfers {
			if v := oa.OutputTransfers[i].Value; v != nil {
				add(v, fmt.Sprintf("value of transfer %d to %x", i, oa.Address))
			}
		}
	}
	for _, n := range nums {
		if n.p.Cmp(n.want) != 0 {
			return fmt.Sprintf("the owner of the output added %v to each of its numbers once; the %s grew by %v: it shares its number object with another field", bump, n.what, new(big.Int).Sub(n.p, new(big.Int).Sub(n.want, bump)))
		}
	}
	for _, k := range keys {
		oa := out.OutputAccounts[k]
		if oa == nil {
			continue
		}
		for i := range oa.OutputTransfers {
			oa.OutputTransfers[i] = vmcommon.OutputTransfer{Data: []byte("reused")}
		}
	}
	for _, c := range cps {
		if got := render(c.acc); got != c.want {
			return fmt.Sprintf("a checkpoint taken with MergeOutputAccounts said %s and says %s after the owner of the output reused its transfer list", c.want, got)
		}
	}
	return ""
}

// FlattenTransfers lists output transfers in a canonical order (by destination address, then index).
func FlattenTransfers(out *vmcommon.VMOutput) []spec.OutTransfer {
	var res []spec.OutTransfer
	keys := make([]string, 0, len(out.OutputAccounts))
	for k := range out.OutputAccounts {
		keys = append(keys, k)
	}
	sort.Strings(keys)
	for _, k := range keys {
		oa := out.OutputAccounts[k]
		if oa == nil {
			continue
		}
		for i, ot := range oa.OutputTransfers {
			v := big.NewInt(0)
			if ot.Value != nil {
				v = new(big.Int).Set(ot.Value)
			}
			res = append(res, spec.OutTransfer{
				MapKey: []byte(k), To: oa.Address, Sender: ot.SenderAddress, Data: string(ot.Data), Gas: ot.GasLimit,
				GasLocked: ot.GasLocked, CallType: int(ot.CallType), Value: v, Index: i,
			})
		}
	}
	return res
}

// BuildData encodes function@hex(arg)... the way the protocol does (used by the harness for
// refunds and control messages; client transactions use the repository's txDataBuilder).
func BuildData(fn string, args [][]byte) string {
	var sb strings.Builder
	sb.WriteString(fn)
	for _, a := range args {
		sb.WriteByte('@')
		sb.WriteString(hex.EncodeToString(a))
	}
	return sb.String()
}
