package world

import (
	"errors"
	"fmt"

	vmcommon "github.com/ElrondNetwork/elrond-vm-common"

	"verifsim/spec"
)

// Coordinator is the stub shard coordinator: total on addresses of every length.
type Coordinator struct {
	Self uint32
	N    uint32
}

// ShardOf computes the shard of an address for a world of n shards.
func ShardOf(address []byte, n uint32) uint32 {
	if len(address) == 0 {
		return 0
	}
	if spec.IsMetaContract(address) {
		return spec.MetaShard
	}
	return uint32(address[len(address)-1]) % n
}

func (c *Coordinator) NumberOfShards() uint32          { return c.N }
func (c *Coordinator) ComputeId(address []byte) uint32 { return ShardOf(address, c.N) }
func (c *Coordinator) SelfId() uint32                  { return c.Self }
func (c *Coordinator) SameShard(a, b []byte) bool      { return ShardOf(a, c.N) == ShardOf(b, c.N) }
func (c *Coordinator) CommunicationIdentifier(d uint32) string {
	return fmt.Sprintf("%d_%d", c.Self, d)
}
func (c *Coordinator) IsInterfaceNil() bool { return c == nil }

// EpochClock is the stub epoch notifier: the shard's logical clock. Like elrond-go's notifier it
// confirms the current epoch to a handler at registration time.
type EpochClock struct {
	Current  uint32
	LastTS   uint64 // timestamp that came with the last confirmation (header timestamps need not be monotonic across roll-backs)
	handlers []vmcommon.EpochSubscriberHandler
	Events   int
}

func (e *EpochClock) RegisterNotifyHandler(h vmcommon.EpochSubscriberHandler) {
	e.handlers = append(e.handlers, h)
	h.EpochConfirmed(e.Current, e.LastTS)
}
func (e *EpochClock) IsInterfaceNil() bool { return e == nil }

// Confirm plays one clock event to every registered handler.
func (e *EpochClock) Confirm(epoch uint32, ts uint64) {
	e.Current = epoch
	e.LastTS = ts
	e.Events++
	for _, h := range e.handlers {
		h.EpochConfirmed(epoch, ts)
	}
}

// DropHandlers forgets the registered handlers (node restart: function objects are rebuilt).
func (e *EpochClock) DropHandlers() { e.handlers = nil }

// Payability states of the oracle table.
const (
	Payable = iota
	NonPayable
	PayErroring
)

// PayableOracle is the payability seam. Truth is a table owned by the simulator: user accounts
// are payable, contracts as recorded at deployment (or erroring, a per-run adversarial choice).
type PayableOracle struct {
	Faults  *FaultPlan
	Table   map[string]int // contract address -> state
	Queries int
}

// StateOf returns the oracle's answer for an address.
func (p *PayableOracle) StateOf(address []byte) int {
	if !spec.IsContract(address) {
		return Payable
	}
	if st, ok := p.Table[string(address)]; ok {
		return st
	}
	return NonPayable
}

// IsPayable implements vmcommon.PayableHandler.
func (p *PayableOracle) IsPayable(address []byte) (bool, error) {
	if p.Faults.hit(DepIsPayable) {
		// Alt 1: the lookup fails after it had already formed an answer (the boolean next to an error
		// carries no meaning)
		return p.Faults.Alt == 1, ErrInjected
	}
	p.Queries++
	switch p.StateOf(address) {
	case Payable:
		return true, nil
	case PayErroring:
		return false, errors.New("payability lookup failed")
	}
	return false, nil
}
func (p *PayableOracle) IsInterfaceNil() bool { return p == nil }
