package world

import (
	"io"
	"bytes"
	"errors"
	"fmt"
	"math/big"

	"github.com/ElrondNetwork/elrond-vm-common/data/esdt"

	"verifsim/spec"
)

// Codec is the Marshalizer seam: the production gogo-protobuf codec (obj.Marshal / Reset+Unmarshal,
// as elrond-go's GogoProtoMarshalizer does) behind a fault point, with every value that passes
// through compared against the oracle's independent encoder (C14).
type Codec struct {
	Faults     *FaultPlan
	Check      bool
	Report     func(detail string) // called on a C14 mismatch
	Marshals   int
	Unmarshals int
	Distinct   map[string]struct{} // distinct encoded values seen (evidence)
	// used objects: the last token and role list some earlier Unmarshal filled. Users of the codec
	// decode into objects they keep (Reset, then Unmarshal - what this adapter and proto.Unmarshal
	// do): the value decoded into a used object must be the value decoded into a fresh one
	usedToken *esdt.ESDigitalToken
	usedRoles *esdt.ESDTRoles
}

// NewCodec returns a checking codec.
func NewCodec(f *FaultPlan) *Codec {
	return &Codec{Faults: f, Check: true, Distinct: map[string]struct{}{}}
}

type gogoMsg interface {
	Marshal() ([]byte, error)
	Unmarshal([]byte) error
	Reset()
	Size() int
}

// TokenFromESDT converts the repository struct into the oracle's view (field access only).
func TokenFromESDT(e *esdt.ESDigitalToken) *spec.Token {
	t := &spec.Token{Type: e.Type, Properties: e.Properties, Reserved: e.Reserved}
	if e.Value != nil {
		t.Value = new(big.Int).Set(e.Value)
	}
	if e.TokenMetaData != nil {
		t.Meta = MetaFromESDT(e.TokenMetaData)
	}
	return t
}

// MetaFromESDT converts metadata.
func MetaFromESDT(m *esdt.MetaData) *spec.Meta {
	return &spec.Meta{Nonce: m.Nonce, Name: m.Name, Creator: m.Creator, Royalties: m.Royalties, Hash: m.Hash, URIs: m.URIs, Attributes: m.Attributes}
}

// ESDTFromToken converts the oracle's view into the repository struct.
func ESDTFromToken(t *spec.Token) *esdt.ESDigitalToken {
	e := &esdt.ESDigitalToken{Type: t.Type, Properties: t.Properties, Reserved: t.Reserved}
	if t.Value != nil {
		e.Value = new(big.Int).Set(t.Value)
	}
	if t.Meta != nil {
		e.TokenMetaData = &esdt.MetaData{Nonce: t.Meta.Nonce, Name: t.Meta.Name, Creator: t.Meta.Creator, Royalties: t.Meta.Royalties, Hash: t.Meta.Hash, URIs: t.Meta.URIs, Attributes: t.Meta.Attributes}
	}
	return e
}

// RefEncode returns the reference encoding of a repository message, or false for unknown types.
func RefEncode(obj interface{}) ([]byte, bool) {
	switch v := obj.(type) {
	case *esdt.ESDigitalToken:
		return spec.EncodeToken(TokenFromESDT(v)), true
	case *esdt.MetaData:
		return spec.EncodeMeta(MetaFromESDT(v)), true
	case *esdt.ESDTRoles:
		return spec.EncodeRoles(&spec.Roles{Roles: v.Roles}), true
	}
	return nil, false
}

func (c *Codec) report(format string, a ...interface{}) {
	if c.Report != nil {
		c.Report(fmt.Sprintf(format, a...))
	}
}

// Marshal implements vmcommon.Marshalizer.
func (c *Codec) Marshal(obj interface{}) ([]byte, error) {
	if c.Faults.hit(DepMarshal) {
		return nil, ErrInjected
	}
	m, ok := obj.(gogoMsg)
	if !ok {
		return nil, errors.New("codec: not a protobuf message")
	}
	c.Marshals++
	b, err := m.Marshal()
	if err != nil {
		return nil, err
	}
	if c.Check {
		c.CheckEncoding(obj, b)
	}
	return b, nil
}

// CheckEncoding compares one production encoding with the reference encoder and checks
// size, determinism and the decode round trip.
func (c *Codec) CheckEncoding(obj interface{}, b []byte) {
	m := obj.(gogoMsg)
	ref, ok := RefEncode(obj)
	if !ok {
		return
	}
	if c.Distinct != nil && len(c.Distinct) < 1<<16 {
		c.Distinct[string(b)] = struct{}{}
	}
	if !bytes.Equal(ref, b) {
		c.report("wire format: Marshal(%T)=%x, documented encoding=%x", obj, b, ref)
		return
	}
	if m.Size() != len(b) {
		c.report("size: Size()=%d, len(Marshal)=%d for %x", m.Size(), len(b), b)
	}
	b2, err := m.Marshal()
	if err != nil || !bytes.Equal(b, b2) {
		c.report("determinism: second Marshal gave %x (err=%v), first %x", b2, err, b)
	}
	// encoding into memory the caller supplies (a recycled buffer): the bytes must not depend on
	// what the buffer held before
	if mt, ok := obj.(interface {
		MarshalTo([]byte) (int, error)
	}); ok {
		for _, fill := range []byte{0x01, 0xff} {
			buf := bytes.Repeat([]byte{fill}, m.Size())
			n, err := mt.MarshalTo(buf)
			if err != nil || n != len(b) || !bytes.Equal(buf[:n], b) {
				c.report("determinism: MarshalTo into a buffer filled with %02x gave %x (n=%d, err=%v), Marshal gives %x", fill, buf, n, err, b)
				break
			}
		}
	}
	var back gogoMsg
	switch obj.(type) {
	case *esdt.ESDigitalToken:
		back = &esdt.ESDigitalToken{}
	case *esdt.MetaData:
		back = &esdt.MetaData{}
	case *esdt.ESDTRoles:
		back = &esdt.ESDTRoles{}
	}
	if err := back.Unmarshal(b); err != nil {
		c.report("round trip: Unmarshal(Marshal(x)) failed: %v for %x", err, b)
		return
	}
	ref2, _ := RefEncode(back)
	if !bytes.Equal(ref2, b) {
		c.report("round trip: Unmarshal(Marshal(x)) != x: %x vs %x", ref2, b)
	}
}

// Unmarshal implements vmcommon.Marshalizer.
func (c *Codec) Unmarshal(obj interface{}, buff []byte) error {
	if c.Faults.hit(DepUnmarshal) {
		// other faces of the same failure: the errors the production codec itself returns for a short
		// read (a failed decoding is a failed decoding, whatever the error value is)
		switch c.Faults.Alt {
		case 1:
			return io.ErrUnexpectedEOF
		case 2:
			return fmt.Errorf("proto: wrong wireType: %w", io.EOF)
		}
		return ErrInjected
	}
	m, ok := obj.(gogoMsg)
	if !ok {
		return errors.New("codec: not a protobuf message")
	}
	c.Unmarshals++
	m.Reset()
	err := m.Unmarshal(buff)
	if err == nil && c.Check {
		c.checkDecoding(obj, buff)
		c.checkReuse(obj, buff)
	}
	return err
}

// checkReuse decodes buff a second time, into the object an earlier decoding left behind, and compares
// the re-encoding of both results; the fresh result then becomes the used object (as a private copy).
func (c *Codec) checkReuse(obj interface{}, buff []byte) {
	switch v := obj.(type) {
	case *esdt.ESDigitalToken:
		want, err := v.Marshal()
		if err != nil {
			return
		}
		if u := c.usedToken; u != nil {
			u.Reset()
			if err := u.Unmarshal(buff); err != nil {
				c.report("decode into a used object: Reset+Unmarshal(%x) fails with %v, a fresh object accepts it", buff, err)
			} else if got, _ := u.Marshal(); !bytes.Equal(got, want) || (u.TokenMetaData == nil) != (v.TokenMetaData == nil) || u.Size() != v.Size() {
				c.report("decode into a used object: Reset+Unmarshal(%x) gives a value that encodes as %x (metadata present: %v), a fresh object gives %x (metadata present: %v)", buff, got, u.TokenMetaData != nil, want, v.TokenMetaData != nil)
			}
		}
		cp := &esdt.ESDigitalToken{}
		if cp.Unmarshal(append([]byte{}, buff...)) == nil {
			c.usedToken = cp
		}
	case *esdt.ESDTRoles:
		want, err := v.Marshal()
		if err != nil {
			return
		}
		if u := c.usedRoles; u != nil {
			u.Reset()
			if err := u.Unmarshal(buff); err != nil {
				c.report("decode into a used object: roles Reset+Unmarshal(%x) fails with %v", buff, err)
			} else if got, _ := u.Marshal(); !bytes.Equal(got, want) || len(u.Roles) != len(v.Roles) {
				c.report("decode into a used object: roles Reset+Unmarshal(%x) gives %x, a fresh object gives %x", buff, got, want)
			}
		}
		cp := &esdt.ESDTRoles{}
		if cp.Unmarshal(append([]byte{}, buff...)) == nil {
			c.usedRoles = cp
		}
	}
}

func (c *Codec) checkDecoding(obj interface{}, buff []byte) {
	// a canonical buffer (one the oracle's strict decoder accepts) must decode to the same value
	switch v := obj.(type) {
	case *esdt.ESDigitalToken:
		t, err := spec.DecodeToken(buff)
		if err != nil {
			return
		}
		if !bytes.Equal(spec.EncodeToken(t), spec.EncodeToken(TokenFromESDT(v))) {
			c.report("decode: Unmarshal(%x) gave %v, reference decoder %v", buff, TokenFromESDT(v), t)
		}
	case *esdt.ESDTRoles:
		r, err := spec.DecodeRoles(buff)
		if err != nil {
			return
		}
		if !bytes.Equal(spec.EncodeRoles(r), spec.EncodeRoles(&spec.Roles{Roles: v.Roles})) {
			c.report("decode: roles Unmarshal(%x) differs from reference decoder", buff)
		}
	}
}

// IsInterfaceNil implements vmcommon.Marshalizer.
func (c *Codec) IsInterfaceNil() bool { return c == nil }
