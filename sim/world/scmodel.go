package world

import (
	"bytes"
	"fmt"
	"github.com/ElrondNetwork/elrond-vm-common/txDataBuilder"
	"math/big"
	"strings"

	vmcommon "github.com/ElrondNetwork/elrond-vm-common"

	"verifsim/spec"
)

// RolesForKind lists the roles the system contract hands out per token kind.
func RolesForKind(kind int) []string {
	switch kind {
	case KindFungible:
		return []string{spec.RoleLocalMint, spec.RoleLocalBurn}
	case KindSFT:
		return []string{spec.RoleNFTCreate, spec.RoleNFTAddQuantity, spec.RoleNFTBurn, spec.RoleNFTAddURI, spec.RoleNFTUpdateAttrs}
	}
	return []string{spec.RoleNFTCreate, spec.RoleNFTBurn, spec.RoleNFTAddURI, spec.RoleNFTUpdateAttrs}
}

func (w *World) control(dstShard uint32, rcv []byte, fn string, args [][]byte, tag string) *Msg {
	w.ctlIdx++
	m := &Msg{ID: fmt.Sprintf("%d.c%d", w.curN, w.ctlIdx), Kind: KindControl, Snd: append([]byte{}, spec.ESDTSystemSC...), Rcv: append([]byte{}, rcv...),
		Data: BuildData(fn, args), Value: big.NewInt(0), Gas: 0, CallType: vmcommon.DirectCall, SrcShard: spec.MetaShard, DstShard: dstShard, Tag: tag}
	w.Pool = append(w.Pool, m)
	w.logf("  control %s -> shard %d rcv=%x %s", m.ID, dstShard, rcv, m.Data)
	return m
}

// ApplySC performs one action of the system-contract model. Actions that would break the
// discipline the properties assume (see DESIGN 3) are refused; it returns whether it acted.
func (w *World) ApplySC(a *SCAction) bool {
	t := w.Tok(unhx(a.Token))
	if t == nil {
		return false
	}
	addr := unhx(a.Addr)
	shard := ShardOf(addr, w.Cfg.NumShards)
	needAddr := a.Op != "pause" && a.Op != "unpause"
	if needAddr && (len(addr) != 32 || shard == spec.MetaShard) {
		return false
	}
	w.ctlIdx = 0
	switch a.Op {
	case "issue":
		if t.Kind != KindFungible {
			return false
		}
		amt, ok := new(big.Int).SetString(a.Amount, 10)
		if !ok || amt.Sign() <= 0 {
			return false
		}
		w.checkIssueRequest(t, amt)
		m := w.control(shard, addr, spec.FnESDTTransfer, [][]byte{t.ID, amt.Bytes()}, "")
		m.Mint = true
		m.Carries = []spec.Carry{{Token: t.ID, Amount: amt}}
	case "setrole":
		var roles [][]byte
		held := t.Roles[string(addr)]
		if held == nil {
			held = map[string]bool{}
		}
		for _, r := range a.Roles {
			if held[r] {
				continue // never sets a role the account already holds
			}
			if r == spec.RoleNFTCreate {
				if t.Assigned {
					continue // single creator: the create role is given out once, then only handed over
				}
				t.Assigned = true
				t.Creator = string(addr)
			}
			held[r] = true
			roles = append(roles, []byte(r))
		}
		if len(roles) == 0 {
			return false
		}
		t.Roles[string(addr)] = held
		w.control(shard, addr, spec.FnSetRole, append([][]byte{t.ID}, roles...), "")
	case "setrole-again":
		// OUT OF DISCIPLINE on purpose (C11: any storage state reachable through built-in calls):
		// the grant of a role the account already holds is sent again; the no-duplicates clause of
		// C15 is switched off for this (account, token)
		held := t.Roles[string(addr)]
		var roles [][]byte
		for _, r := range a.Roles {
			if held[r] && r != spec.RoleNFTCreate {
				roles = append(roles, []byte(r))
			}
		}
		if len(roles) == 0 {
			return false
		}
		w.Ghost.DupAllowed[string(addr)+"\x00"+string(t.ID)] = true
		w.Stats.Probes["role-grant-resent"]++
		w.control(shard, addr, spec.FnSetRole, append([][]byte{t.ID}, roles...), "")
	case "unsetrole":
		var roles [][]byte
		held := t.Roles[string(addr)]
		for _, r := range a.Roles {
			if r == spec.RoleNFTCreate {
				continue // the create role cannot be unset, only handed over
			}
			if held[r] {
				delete(held, r)
			}
			roles = append(roles, []byte(r))
		}
		if len(roles) == 0 {
			return false
		}
		w.control(shard, addr, spec.FnUnSetRole, append([][]byte{t.ID}, roles...), "")
	case "freeze", "unfreeze", "wipe":
		// with a nonce: the system contract's single-NFT forms (freezeSingleNFT, unFreezeSingleNFT,
		// wipeSingleNFT) address one NFT by the composed identifier token||nonce; the contract cannot
		// know whether the account still holds that nonce
		ident := append([]byte{}, t.ID...)
		fk := string(addr)
		if a.Nonce > 0 && t.Kind != KindFungible {
			ident = append(ident, spec.NonceBytes(a.Nonce)...)
			fk += "\x00" + string(spec.NonceBytes(a.Nonce))
			w.Stats.Probes["single-nft-"+a.Op]++
		}
		fn := spec.FnFreeze
		switch a.Op {
		case "freeze":
			t.Frozen[fk] = true
		case "unfreeze":
			delete(t.Frozen, fk)
			fn = spec.FnUnFreeze
		default:
			delete(t.Frozen, fk)
			fn = spec.FnWipe
		}
		w.control(shard, addr, fn, [][]byte{ident}, "")
	case "pause", "unpause":
		fn := spec.FnPause
		if a.Op == "unpause" {
			fn = spec.FnUnPause
		}
		t.Paused = a.Op == "pause"
		for s := uint32(0); s < w.Cfg.NumShards; s++ {
			rcv := append([]byte{}, spec.SystemAccount...)
			if a.Nonce%3 == 1 {
				// a per-shard form of the system account address (the first 30 bytes identify it)
				rcv[30], rcv[31] = byte(a.Nonce>>8), byte(s)
			}
			w.control(s, rcv, fn, [][]byte{t.ID}, "")
		}
	case "forge-control":
		// a control call from a metachain contract that is NOT the ESDT system contract (staking,
		// delegation, ...): only the ESDT system contract has authority (C03)
		caller := unhx(a.Addr2)
		if len(caller) != 32 || ShardOf(caller, w.Cfg.NumShards) != spec.MetaShard || bytes.Equal(caller, spec.ESDTSystemSC) {
			return false
		}
		var args [][]byte
		rcv := addr
		dst := shard
		switch a.Fn {
		case spec.FnFreeze, spec.FnUnFreeze, spec.FnWipe:
			args = [][]byte{t.ID}
		case spec.FnPause, spec.FnUnPause:
			args = [][]byte{t.ID}
			rcv = spec.SystemAccount
		case spec.FnSetRole, spec.FnUnSetRole:
			if len(a.Roles) == 0 {
				return false
			}
			args = [][]byte{t.ID, []byte(a.Roles[0])}
		default:
			return false
		}
		m := w.control(dst, rcv, a.Fn, args, "")
		m.Snd = append([]byte{}, caller...)
		w.Stats.Probes["control-from-other-metachain-contract"]++
	case "drop":
		caller := unhx(a.Addr2)
		if len(caller) != 32 || ShardOf(caller, w.Cfg.NumShards) != spec.MetaShard {
			return false
		}
		amt, ok := new(big.Int).SetString(a.Amount, 10)
		if !ok || amt.Sign() <= 0 {
			return false
		}
		payload := unhx(a.Payload)
		var args [][]byte
		switch a.Fn {
		case spec.FnESDTTransfer:
			if a.Nonce != 0 {
				return false
			}
			args = [][]byte{t.ID, amt.Bytes()}
		case spec.FnESDTNFTTransfer:
			if a.Nonce == 0 || len(payload) == 0 {
				return false
			}
			args = [][]byte{t.ID, spec.NonceBytes(a.Nonce), amt.Bytes(), payload}
		case spec.FnMultiTransfer:
			if a.Nonce == 0 {
				args = [][]byte{{1}, t.ID, {0}, amt.Bytes()}
			} else {
				if len(payload) == 0 {
					return false
				}
				args = [][]byte{{1}, t.ID, spec.NonceBytes(a.Nonce), payload}
			}
		default:
			return false
		}
		if a.Twin {
			if a.Nonce == 0 || spec.Balance(spec.ShardState(w.Nodes[shard].Store.Accts), addr, t.ID, a.Nonce).Sign() == 0 {
				return false
			}
		}
		m := w.control(shard, addr, a.Fn, args, "")
		m.Snd = append([]byte{}, caller...)
		m.Mint = true
		m.ReturnErr = a.ReturnErr
		m.CallType = vmcommon.CallType(a.CallType)
		m.Carries = []spec.Carry{{Token: t.ID, Nonce: a.Nonce, Amount: amt}}
		w.Stats.Probes["protocol-credit-message"]++
		if a.Twin {
			w.Pool = w.Pool[:len(w.Pool)-1]
			w.Stats.Probes["different-hash-arrival"]++
			w.Run(m, nil)
		}
	case "handover":
		to := unhx(a.Addr2)
		if t.Creator == "" || t.Pending || t.Lost || string(addr) != t.Creator || bytes.Equal(to, addr) || len(to) != 32 ||
			ShardOf(to, w.Cfg.NumShards) == spec.MetaShard {
			return false
		}
		t.Pending = true
		w.control(shard, addr, spec.FnCreateRoleTransfer, [][]byte{t.ID, to}, "handover-start:"+string(t.ID)+":"+string(to))
	default:
		return false
	}
	return true
}

// controlDone is called after a tagged control message was executed.
func (w *World) controlDone(m *Msg, ex *Exec, ok bool) {
	if !strings.HasPrefix(m.Tag, "handover-start:") {
		return
	}
	rest := m.Tag[len("handover-start:"):]
	i := strings.LastIndex(rest, ":")
	if i < 0 {
		return
	}
	tok, to := rest[:i], rest[i+1:]
	t := w.Tok([]byte(tok))
	if t == nil {
		return
	}
	if !ok {
		// the current holder's shard refused (injected fault): nothing moved
		t.Pending = false
		return
	}
	held := t.Roles[t.Creator]
	delete(held, spec.RoleNFTCreate)
	if ShardOf([]byte(to), w.Cfg.NumShards) == w.Nodes[m.DstShard].ID {
		w.Stats.Probes["handover-same-shard"]++
		w.finishHandover(t, to)
		return
	}
	// cross-shard: completed when the emitted message is delivered
	t.Creator = ""
	found := false
	for _, p := range w.Pool {
		if p.Tag == "handover:"+tok {
			p.Tag = "handover:" + tok + ":" + to
			found = true
		}
	}
	if !found {
		t.Lost = true
		t.Pending = false
	}
}

func (w *World) finishHandover(t *TokenInfo, to string) {
	t.Creator = to
	t.Pending = false
	if t.Roles[to] == nil {
		t.Roles[to] = map[string]bool{}
	}
	t.Roles[to][spec.RoleNFTCreate] = true
}

// handoverDone is called after a hand-over message (or a duplicate of it) was executed.
func (w *World) handoverDone(m *Msg, ok bool) {
	parts := strings.SplitN(m.Tag[len("handover:"):], ":", 2)
	if len(parts) != 2 {
		return
	}
	t := w.Tok([]byte(parts[0]))
	if t == nil {
		return
	}
	if strings.HasSuffix(m.ID, "dup") {
		w.Stats.Probes["handover-redelivered"]++
		return
	}
	if ok {
		w.Stats.Probes["handover-cross-shard"]++
		w.finishHandover(t, parts[1])
		// keep a copy: the transport may deliver it again later (duplication fault, C07)
		cp := *m
		w.Dead[m.ID] = &cp
	} else {
		t.Lost = true
		t.Pending = false
	}
}

// Redeliver injects a duplicate of an already delivered hand-over message.
func (w *World) Redeliver(id string, fault []int) bool {
	m, ok := w.Dead[id]
	if !ok {
		return false
	}
	parts := strings.SplitN(m.Tag[len("handover:"):], ":", 2)
	t := w.Tok([]byte(parts[0]))
	// duplicates are only meaningful while the addressee still is the holder and no newer
	// hand-over of the same token has started (a stale duplicate after a later hand-over would
	// re-grant the role: out of the single-creator discipline the property assumes)
	if t == nil || t.Creator != parts[1] || t.Pending || t.Lost {
		return false
	}
	cp := *m
	cp.ID = m.ID + "dup"
	w.Stats.Faults["duplicate-delivery"]++
	w.logf("redeliver %s", cp.ID)
	w.Run(&cp, fault)
	w.handoverDone(&cp, true)
	return true
}

// checkIssueRequest: the client transaction that asks the system contract for this issue, built with
// the builder's own helpers (IssueESDT and the property helpers), must be the documented encoding
// and parse back to what was put in (C12). The properties are derived from the amount, so that the
// check replays with the event.
func (w *World) checkIssueRequest(t *TokenInfo, amt *big.Int) {
	supply := int64(1)
	if amt.IsInt64() {
		supply = amt.Int64()
	}
	bit := func(i uint) bool { return amt.Bit(int(i%uint(amt.BitLen()+1))) == 1 }
	name := string(t.ID)
	ticker := name
	if i := strings.IndexByte(name, '-'); i > 0 {
		ticker = name[:i]
	}
	dec := byte(amt.BitLen())
	var data, pan string
	func() {
		defer func() {
			if r := recover(); r != nil {
				pan = fmt.Sprint(r)
			}
		}()
		b := txDataBuilder.NewBuilder()
		b.IssueESDT(name, ticker, supply, dec).CanFreeze(bit(0)).CanWipe(bit(1)).CanPause(bit(2)).CanMint(bit(3)).CanBurn(bit(4)).CanTransferNFTCreateRole(bit(5)).CanAddSpecialRoles(bit(6))
		data = b.ToString()
	}()
	if pan != "" {
		w.violate(spec.Violation{Props: spec.P("C12"), Clause: "builder", Detail: "the tx-data builder panicked on an issue request: " + pan})
		return
	}
	tf := func(v bool) []byte {
		if v {
			return []byte("true")
		}
		return []byte("false")
	}
	args := [][]byte{[]byte(name), []byte(ticker), big.NewInt(supply).Bytes(), {dec}}
	for i, p := range []string{"canFreeze", "canWipe", "canPause", "canMint", "canBurn", "canTransferNFTCreateRole", "canAddSpecialRoles"} {
		args = append(args, []byte(p), tf(bit(uint(i))))
	}
	w.CheckBuilt("issue", args, data)
}
