package world

import (
	"bytes"
	"fmt"
	"math/big"
	"math/rand"
	"sort"

	"github.com/ElrondNetwork/elrond-vm-common/data/esdt"
	"github.com/ElrondNetwork/elrond-vm-common/parsers"

	"verifsim/spec"
)

// snapshot is everything a what-if execution may change.
type snapshot struct {
	accts  []map[string]*AccountState
	pool   []*Msg
	ghost  *spec.Ghost
	tokens []TokenInfo
	dead   map[string]*Msg
}

func cloneTokenInfo(t *TokenInfo) TokenInfo {
	c := *t
	c.Roles = map[string]map[string]bool{}
	for a, rs := range t.Roles {
		m := map[string]bool{}
		for r, v := range rs {
			m[r] = v
		}
		c.Roles[a] = m
	}
	c.Frozen = map[string]bool{}
	for a, v := range t.Frozen {
		c.Frozen[a] = v
	}
	return c
}

// Snapshot captures the mutable world.
func (w *World) Snapshot() *snapshot {
	s := &snapshot{ghost: w.Ghost.Clone(), dead: map[string]*Msg{}}
	for _, nd := range w.Nodes {
		s.accts = append(s.accts, spec.ShardState(nd.Store.Accts).Clone())
	}
	for _, m := range w.Pool {
		cp := *m
		s.pool = append(s.pool, &cp)
	}
	for _, t := range w.U.Tokens {
		s.tokens = append(s.tokens, cloneTokenInfo(t))
	}
	for k, v := range w.Dead {
		s.dead[k] = v
	}
	return s
}

// Restore puts the world back (function objects are kept: reused instances, C13).
func (w *World) Restore(s *snapshot) {
	for i, nd := range w.Nodes {
		nd.Store.Accts = spec.ShardState(s.accts[i]).Clone()
		_, _ = nd.Store.Commit()
	}
	w.Pool = nil
	for _, m := range s.pool {
		cp := *m
		w.Pool = append(w.Pool, &cp)
	}
	w.Ghost = s.ghost.Clone()
	for i := range s.tokens {
		c := cloneTokenInfo(&s.tokens[i])
		*w.U.Tokens[i] = c
	}
	w.Dead = map[string]*Msg{}
	for k, v := range s.dead {
		w.Dead[k] = v
	}
}

// inner returns the message a wrapping probe is about.
func (w *World) inner(ev Event) *Msg {
	if ev.Tx != nil {
		m := w.MsgOfTx(ev.N, ev.Tx)
		if len(m.Snd) != 32 || len(m.Rcv) != 32 || m.DstShard == spec.MetaShard {
			return nil
		}
		return m
	}
	for _, m := range w.Pool {
		if m.ID == ev.ID {
			return m
		}
	}
	return nil
}

func (w *World) applyInner(ev Event, fault []int) bool {
	if ev.Tx != nil {
		m := w.MsgOfTx(ev.N, ev.Tx)
		w.Run(m, fault)
		return true
	}
	return w.Deliver(ev.ID, fault)
}

// CanonExec is the canonical serialisation of a call's observable result (C13).
func CanonExec(ex *Exec) string {
	var b bytes.Buffer
	fmt.Fprintf(&b, "panic=%q err=%v\n", ex.Panic, ex.Err)
	if ex.Out != nil {
		o := ex.Out
		fmt.Fprintf(&b, "rc=%d msg=%q rem=%d refund=%v rd=%x del=%x touched=%x\n", o.ReturnCode, o.ReturnMessage, o.GasRemaining, o.GasRefund, o.ReturnData, o.DeletedAccounts, o.TouchedAccounts)
		for i, l := range o.Logs {
			if l == nil {
				fmt.Fprintf(&b, "log%d=nil\n", i)
				continue
			}
			fmt.Fprintf(&b, "log%d id=%x addr=%x topics=%x data=%x\n", i, l.Identifier, l.Address, l.Topics, l.Data)
		}
		keys := make([]string, 0, len(o.OutputAccounts))
		for k := range o.OutputAccounts {
			keys = append(keys, k)
		}
		sort.Strings(keys)
		for _, k := range keys {
			oa := o.OutputAccounts[k]
			fmt.Fprintf(&b, "oa %x addr=%x nonce=%d bal=%v delta=%v code=%x cm=%x gas=%d\n", k, oa.Address, oa.Nonce, oa.Balance, oa.BalanceDelta, oa.Code, oa.CodeMetadata, oa.GasUsed)
			sk := make([]string, 0, len(oa.StorageUpdates))
			for s := range oa.StorageUpdates {
				sk = append(sk, s)
			}
			sort.Strings(sk)
			for _, s := range sk {
				fmt.Fprintf(&b, "  su %x=%x\n", oa.StorageUpdates[s].Offset, oa.StorageUpdates[s].Data)
			}
			for _, t := range oa.OutputTransfers {
				fmt.Fprintf(&b, "  ot val=%v gas=%d locked=%d data=%q ct=%d snd=%x\n", t.Value, t.GasLimit, t.GasLocked, t.Data, t.CallType, t.SenderAddress)
			}
		}
	}
	for _, a := range ex.Post.SortedAddrs() {
		acc := ex.Post[a]
		fmt.Fprintf(&b, "acct %x n=%d b=%v o=%x u=%x r=%v m=%x\n", a, acc.Nonce, acc.Balance, acc.Owner, acc.UserName, acc.DevReward, acc.CodeMetadata)
		for _, k := range acc.SortedKeys() {
			fmt.Fprintf(&b, "  %x=%x\n", k, acc.Storage[k])
		}
	}
	return b.String()
}

// Probe runs a what-if exploration on a snapshot of the current state and (for the wrapping
// kinds) finally applies the inner event for real.
func (w *World) Probe(ev Event) bool {
	switch ev.Probe {
	case "faults":
		return w.probeFaults(ev)
	case "gas":
		return w.probeGas(ev)
	case "double":
		return w.probeDouble(ev)
	case "corrupt":
		return w.probeCorrupt(ev)
	}
	return false
}

// probeFaults: dependency fault-point enumeration (C17). The call is executed once to count the
// dependency calls it makes, then once per (kind, k) with that call failing.
func (w *World) probeFaults(ev Event) bool {
	m := w.inner(ev)
	if m == nil {
		return false
	}
	snap := w.Snapshot()
	nd := w.Nodes[m.DstShard]
	cp := *m
	ex := nd.Execute(&cp, -1, 0)
	w.Restore(snap)
	if !ex.Succeeded() {
		// only successful scenarios are enumerated
		return w.applyInner(ev, nil)
	}
	points := 0
	total := 0
	for kind := 0; kind < NumDepKinds; kind++ {
		total += ex.Deps[kind]
	}
	// very long calls (hundreds of tokens in one multi-transfer): every stride-th point, so that the
	// enumeration stays bounded (all points of every ordinary call are still enumerated)
	stride := 1
	if total > 240 {
		stride = (total + 119) / 120
		w.Stats.Probes["fault-enumeration-sampled-long-call"]++
	}
	idx := 0
	for kind := 0; kind < NumDepKinds; kind++ {
		if !IsHardDep(kind) && kind != DepTrieRead && kind != DepPauseLookup {
			continue
		}
		for k := 1; k <= ex.Deps[kind]; k++ {
			idx++
			if idx%stride != 0 {
				continue
			}
			if ev.Tx != nil {
				mm := w.MsgOfTx(ev.N, ev.Tx)
				w.Run(mm, []int{kind, k})
			} else {
				w.Deliver(ev.ID, []int{kind, k})
			}
			points++
			w.Stats.Probes["fault-point:"+DepNames[kind]]++
			w.Restore(snap)
			if w.Stop() {
				return true
			}
			// the other manifestations of the same failure (FaultPlan.Alt)
			alts := 0
			switch kind {
			case DepLoadAccount, DepPauseLookup, DepUnmarshal:
				alts = 2
			case DepIsPayable:
				alts = 1
			}
			for alt := 1; alt <= alts; alt++ {
				if ev.Tx != nil {
					mm := w.MsgOfTx(ev.N, ev.Tx)
					w.Run(mm, []int{kind, k, alt})
				} else {
					w.Deliver(ev.ID, []int{kind, k, alt})
				}
				points++
				w.Stats.Probes["fault-point-other-manifestation:"+DepNames[kind]]++
				w.Restore(snap)
				if w.Stop() {
					return true
				}
			}
		}
	}
	w.Stats.Probes["fault-enumerated-calls"]++
	w.Stats.Probes["fault-points"] += points
	return w.applyInner(ev, nil)
}

// probeGas: the call is re-executed with every value of the gas pool around the charge the
// oracle computed for it (C06, C16).
func (w *World) probeGas(ev Event) bool {
	m := w.inner(ev)
	if m == nil {
		return false
	}
	snap := w.Snapshot()
	base := *m
	base.Gas = 1 << 40
	nd := w.Nodes[m.DstShard]
	cp := base
	ex := nd.Execute(&cp, -1, 0)
	var charge uint64
	if ex.Succeeded() {
		vd := spec.Judge(CallOf(ex), w.Env(nd))
		if vd.Charge > 0 {
			charge = vd.Charge
		}
	}
	w.Restore(snap)
	pool := []uint64{0, 1, ^uint64(0), 1 << 63}
	if charge > 0 {
		pool = append(pool, charge-1, charge, charge+1, charge/2, charge+1000)
	}
	for _, g := range pool {
		if ev.Tx != nil {
			mm := w.MsgOfTx(ev.N, ev.Tx)
			mm.Gas = g
			w.Run(mm, nil)
		} else {
			for _, pm := range w.Pool {
				if pm.ID == ev.ID {
					pm.Gas = g
				}
			}
			w.Deliver(ev.ID, nil)
		}
		w.Stats.Probes["gas-sweep-calls"]++
		w.Restore(snap)
		if w.Stop() {
			return true
		}
	}
	return w.applyInner(ev, nil)
}

// probeDouble: the call is executed from equal states through the same function objects twice,
// through a freshly built container, and in another goroutine; results must be byte-identical (C13).
func (w *World) probeDouble(ev Event) bool {
	m := w.inner(ev)
	if m == nil {
		return false
	}
	snap := w.Snapshot()
	nd := w.Nodes[m.DstShard]
	run := func() string {
		cp := *m
		ex := nd.Execute(&cp, -1, 0)
		s := CanonExec(ex)
		// the caller owns what it got back and adds into it in place before the next execution
		ConsumeOutput(ex.Out)
		w.Restore(snap)
		return s
	}
	a := run()
	b := run()
	var c string
	done := make(chan struct{})
	go func() {
		c = run()
		close(done)
	}()
	<-done
	// fresh function objects
	oldC, oldF := nd.Container, nd.factory
	nd.Clock.DropHandlers()
	var d string
	direct := nd.Direct
	removed := nd.HostRemoved
	if err := nd.build(); err == nil {
		// (the host takes out again what it had taken out)
		rn := make([]string, 0, len(removed))
		for n := range removed {
			rn = append(rn, n)
		}
		sort.Strings(rn)
		for _, n := range rn {
			nd.HostRemove(n)
		}
		// (function objects that had been told a schedule of their own are told it again)
		names := make([]string, 0, len(direct))
		for n := range direct {
			names = append(names, n)
		}
		sort.Strings(names)
		for _, n := range names {
			nd.RepriceDirect([]string{n}, direct[n])
		}
		d = run()
		// unrelated calls on the reused objects between the two executions
		_ = oldC
		_ = oldF
	} else {
		d = a
	}
	w.Stats.Probes["double-exec-calls"]++
	if a != b || a != c || a != d {
		which := "repeated execution on the same function objects"
		x := b
		if a == b && a != c {
			which, x = "execution in another goroutine", c
		} else if a == b && a == c {
			which, x = "execution through a freshly built container", d
		}
		w.violate(spec.Violation{Props: spec.P("C13"), Clause: "nondeterminism", Detail: fmt.Sprintf("%s of %q from equal states differs:\n--- first\n%s--- other\n%s", which, m.Data, a, x)})
		return true
	}
	return w.applyInner(ev, nil)
}

var storageParser = parsers.NewStorageUpdatesParser()
var deployParser = parsers.NewDeployArgsParser()

func corruptions(r *rand.Rand, s string) []string {
	if len(s) == 0 {
		return []string{"@", "@@", "a@@b"}
	}
	out := []string{}
	i := r.Intn(len(s))
	out = append(out, s[:i])                                    // truncation (torn write)
	out = append(out, s[:i]+string(rune('g'+r.Intn(10)))+s[i:]) // non-hex character
	out = append(out, s[:i]+"@"+s[i:])                          // inserted separator
	out = append(out, s[:i]+s[i+1:])                            // removed character (odd-length hex)
	up := []byte(s)
	for j := range up {
		if up[j] >= 'a' && up[j] <= 'f' {
			up[j] -= 32
		}
	}
	out = append(out, string(up)) // upper-case hex
	fl := []byte(s)
	fl[i] ^= byte(1 << uint(r.Intn(8)))
	out = append(out, string(fl)) // flipped bit (any of the eight)
	hb := []byte(s)
	hb[i] = byte(0x80 + r.Intn(128))
	out = append(out, string(hb)) // a byte outside ASCII
	if i+1 < len(s) {
		out = append(out, s[:i]+"\xc3\xa9"+s[i+2:]) // a two-byte UTF-8 character in place of two characters (length kept even)
		out = append(out, s[:i]+"\xff\xff"+s[i+2:])
	}
	return out
}

// lengthCorruptions replaces the length prefix of every length-delimited field of a valid encoding
// (top level and nested metadata) by boundary values: the corruption a torn or bit-rotted length
// field produces, chosen at the signed/unsigned 32- and 64-bit edges.
func lengthCorruptions(b []byte) [][]byte {
	var out [][]byte
	bounds := [][]byte{
		{0xff, 0xff, 0xff, 0xff, 0xff, 0xff, 0xff, 0xff, 0x7f},       // 2^63-1
		{0xf6, 0xff, 0xff, 0xff, 0xff, 0xff, 0xff, 0xff, 0x7f},       // 2^63-10
		{0x80, 0x80, 0x80, 0x80, 0x80, 0x80, 0x80, 0x80, 0x80, 0x01}, // 2^63
		{0xff, 0xff, 0xff, 0xff, 0xff, 0xff, 0xff, 0xff, 0xff, 0x01}, // 2^64-1
		{0xff, 0xff, 0xff, 0xff, 0x07},                               // 2^31-1
		{0x80, 0x80, 0x80, 0x80, 0x08},                               // 2^31
		{0xff, 0xff, 0xff, 0xff, 0x0f},                               // 2^32-1
		{0x80, 0x80, 0x80, 0x80, 0x10},                               // 2^32
	}
	varint := func(v uint64) []byte {
		var o []byte
		for v >= 0x80 {
			o = append(o, byte(v)|0x80)
			v >>= 7
		}
		return append(o, byte(v))
	}
	// a field this version does not know (number 15, length-delimited), inserted at a field boundary
	// p bytes into the message being decoded, with a torn length at the edge where "offset + header +
	// length" passes 2^63: the decoder skips unknown fields with its own arithmetic
	unknown := func(at int, p int) {
		if p < 1 || at > len(b) {
			return
		}
		for _, l := range []uint64{1<<63 - 10 - uint64(p), 1<<63 - 11, 1<<63 - 11 - uint64(p), 1<<63 - 10, 1<<63 - 9 - uint64(p)} {
			v := append([]byte{}, b[:at]...)
			v = append(v, 0x7a)
			v = append(v, varint(l)...)
			v = append(v, b[at:]...)
			out = append(out, v)
		}
	}
	var walk func(base int, seg []byte, depth int)
	walk = func(base int, seg []byte, depth int) {
		i := 0
		defer func() { unknown(base+i, i) }()
		for i < len(seg) {
			unknown(base+i, i)
			tag := seg[i]
			if tag&0x80 != 0 {
				return
			}
			i++
			switch tag & 7 {
			case 0:
				for i < len(seg) && seg[i]&0x80 != 0 {
					i++
				}
				i++
			case 2:
				ls := i
				l := 0
				sh := uint(0)
				for i < len(seg) {
					c := seg[i]
					i++
					l |= int(c&0x7f) << sh
					sh += 7
					if c&0x80 == 0 {
						break
					}
					if sh > 28 {
						return
					}
				}
				if i+l > len(seg) || l < 0 {
					return
				}
				for _, bd := range bounds {
					v := append([]byte{}, b[:base+ls]...)
					v = append(v, bd...)
					v = append(v, b[base+i:]...)
					out = append(out, v)
				}
				if depth == 0 && tag>>3 == 4 {
					walk(base+i, seg[i:i+l], 1)
				}
				i += l
			default:
				return
			}
		}
	}
	walk(0, b, 0)
	return out
}

// probeCorrupt: in-flight copies and stored values hit by corruption faults are fed to the real
// parsers and decoders under recover; the copies are discarded afterwards (C12, C14).
func (w *World) probeCorrupt(ev Event) bool {
	r := rand.New(rand.NewSource(ev.PSeed))
	try := func(what string, props []string, f func()) {
		defer func() {
			if x := recover(); x != nil {
				w.violate(spec.Violation{Props: props, Clause: "parser-totality", Detail: fmt.Sprintf("%s panicked: %v", what, x)})
			}
		}()
		f()
	}
	var datas []string
	for _, m := range w.Pool {
		datas = append(datas, m.Data)
	}
	if ev.Tx != nil {
		datas = append(datas, ev.Tx.Data)
	}
	sort.Strings(datas)
	if len(datas) > 6 {
		r.Shuffle(len(datas), func(i, j int) { datas[i], datas[j] = datas[j], datas[i] })
		datas = datas[:6]
	}
	for _, d := range datas {
		// uncorrupted traffic must parse identically with the real parser and the documented grammar
		sfn, sargs, serr := spec.ParseData(d)
		rfn, rargs, rerr := realCallParser.ParseData(d)
		if (serr == nil) != (rerr == nil) || serr == nil && (sfn != rfn || !eqArgs(sargs, rargs)) {
			w.violate(spec.Violation{Props: spec.P("C12", "C10"), Clause: "wire-parse", Detail: fmt.Sprintf("traffic %q: parser gives %s%x err=%v, documented grammar %s%x err=%v", d, rfn, rargs, rerr, sfn, sargs, serr)})
		}
		for _, c := range corruptions(r, d) {
			c := c
			w.Stats.Faults["corrupt-inflight-copy"]++
			try(fmt.Sprintf("call-arguments parser on %q", c), spec.P("C12"), func() {
				fn, args, err := realCallParser.ParseData(c)
				sfn, sargs, serr := spec.ParseData(c)
				if (err == nil) != (serr == nil) {
					// upper-case hex is accepted by both; any disagreement is a grammar drift
					w.violate(spec.Violation{Props: spec.P("C12"), Clause: "grammar", Detail: fmt.Sprintf("corrupted copy %q: parser err=%v, documented grammar err=%v", c, err, serr)})
					return
				}
				if err == nil {
					if fn != sfn || !eqArgs(args, sargs) {
						w.violate(spec.Violation{Props: spec.P("C12"), Clause: "grammar", Detail: fmt.Sprintf("corrupted copy %q parses to %s%x, documented grammar gives %s%x", c, fn, args, sfn, sargs)})
					}
					try(fmt.Sprintf("ESDT-transfer parser on %q", c), spec.P("C12"), func() {
						snd := w.U.Users[0]
						_, _ = w.parser.ParseESDTTransfers(snd, snd, fn, args)
						_, _ = w.parser.ParseESDTTransfers(snd, w.U.Users[len(w.U.Users)-1], fn, args)
					})
				}
			})
			try(fmt.Sprintf("deploy parser on %q", c), spec.P("C12"), func() { _, _ = deployParser.ParseData(c) })
			try(fmt.Sprintf("storage-updates parser on %q", c), spec.P("C12"), func() { _, _ = storageParser.GetStorageUpdates(c) })
		}
	}
	// stored values: flipped byte, truncation (torn write), extension
	type kv struct{ k, v []byte }
	var vals []kv
	for _, nd := range w.Nodes {
		for _, a := range nd.Store.SortedAddrs() {
			acc := nd.Store.Accts[a]
			for _, k := range acc.SortedKeys() {
				if len(k) > 6 && k[:6] == spec.ProtectedPrefix {
					vals = append(vals, kv{[]byte(k), acc.Storage[k]})
				}
			}
		}
	}
	if len(vals) > 8 {
		r.Shuffle(len(vals), func(i, j int) { vals[i], vals[j] = vals[j], vals[i] })
		vals = vals[:8]
	}
	for _, e := range vals {
		muts := [][]byte{}
		if len(e.v) > 0 {
			i := r.Intn(len(e.v))
			f := append([]byte{}, e.v...)
			f[i] ^= byte(1 << uint(r.Intn(8)))
			muts = append(muts, f, append([]byte{}, e.v[:i]...), append(append([]byte{}, e.v...), byte(r.Intn(256)), byte(r.Intn(256))))
			if lc := lengthCorruptions(e.v); len(lc) > 0 {
				r.Shuffle(len(lc), func(i, j int) { lc[i], lc[j] = lc[j], lc[i] })
				if len(lc) > 10 {
					lc = lc[:10]
				}
				muts = append(muts, lc...)
			}
			// the embedded metadata as a message of its own (the metadata decoder sees it from offset 0)
			if t, err := spec.DecodeToken(e.v); err == nil && t.Meta != nil {
				if lc := lengthCorruptions(spec.EncodeMeta(t.Meta)); len(lc) > 0 {
					r.Shuffle(len(lc), func(i, j int) { lc[i], lc[j] = lc[j], lc[i] })
					if len(lc) > 6 {
						lc = lc[:6]
					}
					muts = append(muts, lc...)
				}
			}
		}
		for _, mu := range muts {
			mu := mu
			w.Stats.Faults["corrupt-stored-value"]++
			try(fmt.Sprintf("token decoder on %x", mu), spec.P("C14"), func() {
				t := &esdt.ESDigitalToken{}
				if err := t.Unmarshal(mu); err == nil {
					// what decodes must re-encode and decode to the same value
					b, err2 := t.Marshal()
					if err2 == nil {
						t2 := &esdt.ESDigitalToken{}
						if err3 := t2.Unmarshal(b); err3 != nil || !bytes.Equal(spec.EncodeToken(TokenFromESDT(t2)), spec.EncodeToken(TokenFromESDT(t))) {
							w.violate(spec.Violation{Props: spec.P("C14"), Clause: "codec", Detail: fmt.Sprintf("value decoded from corrupted bytes %x does not survive a re-encode round trip", mu)})
						}
					}
				}
			})
			try(fmt.Sprintf("roles decoder on %x", mu), spec.P("C14"), func() { _ = (&esdt.ESDTRoles{}).Unmarshal(mu) })
			try(fmt.Sprintf("metadata decoder on %x", mu), spec.P("C14"), func() { _ = (&esdt.MetaData{}).Unmarshal(mu) })
		}
	}
	// structured variants of stored token values (the "absent and empty fields" and sign corners the
	// histories themselves do not store): each is encoded by the production codec and compared
	// with the reference encoder, Size(), a second Marshal and the decode round trip
	cd := w.Nodes[0].Codec
	for _, e := range vals {
		if len(e.k) <= len(spec.TokenPrefix) || string(e.k[:len(spec.TokenPrefix)]) != spec.TokenPrefix {
			continue
		}
		t, err := spec.DecodeToken(e.v)
		if err != nil {
			continue
		}
		variants := []*spec.Token{}
		v1 := spec.CloneToken(t)
		v1.Meta = &spec.Meta{} // present but empty
		v2 := spec.CloneToken(t)
		if v2.Value != nil {
			v2.Value.Neg(v2.Value)
		}
		v3 := spec.CloneToken(t)
		v3.Value = nil
		v4 := spec.CloneToken(t)
		v4.Properties, v4.Reserved = []byte{byte(r.Intn(256)), 0}, []byte{byte(r.Intn(256))}
		v5 := spec.CloneToken(t)
		if v5.Meta != nil {
			v5.Meta.URIs = append(v5.Meta.URIs, []byte{}, []byte("u"))
			v5.Meta.Royalties = uint32(r.Intn(1 << 20))
			if r.Intn(2) == 0 {
				// the byte-length boundaries of the base-128 spelling
				vb := []uint64{127, 128, 16383, 16384, 1<<21 - 1, 1 << 21, 1<<28 - 1, 1 << 28}
				v5.Meta.Royalties = uint32(vb[r.Intn(len(vb))])
				v5.Meta.Nonce = vb[r.Intn(len(vb))]
				v5.Meta.Attributes = make([]byte, []int{127, 128, 16383, 16384}[r.Intn(4)])
			}
			v5.Meta.Nonce = uint64(r.Int63())<<1 | 1
		}
		v6 := spec.CloneToken(t)
		v6.Type = uint32(r.Intn(1 << 16))
		if r.Intn(2) == 0 {
			v6.Type = []uint32{127, 128, 16383, 16384, 1<<21 - 1, 1 << 21}[r.Intn(6)]
		}
		v6.Value = new(big.Int).Lsh(big.NewInt(int64(1+r.Intn(255))), uint(8*r.Intn(40)))
		variants = append(variants, v1, v2, v3, v4, v5, v6)
		for _, vt := range variants {
			vt := vt
			w.Stats.Faults["structured-value-variant"]++
			try(fmt.Sprintf("token codec on variant %v", vt), spec.P("C14"), func() {
				obj := ESDTFromToken(vt)
				b, err := obj.Marshal()
				if err != nil {
					w.violate(spec.Violation{Props: spec.P("C14"), Clause: "codec", Detail: fmt.Sprintf("Marshal refused %v: %v", vt, err)})
					return
				}
				cd.CheckEncoding(obj, b)
			})
		}
	}
	return true
}
