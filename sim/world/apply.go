package world

import (
	"bytes"
	"encoding/hex"
	"fmt"
	logger "github.com/ElrondNetwork/elrond-go-logger"
	"math/big"
	"math/rand"
	"sort"
	"strings"

	vmcommon "github.com/ElrondNetwork/elrond-vm-common"
	"github.com/ElrondNetwork/elrond-vm-common/parsers"

	"verifsim/spec"
)

// UserAddr / ContractAddr build the universe's 32-byte addresses; the last byte selects the shard.
func UserAddr(i int, shard uint32) []byte {
	a := make([]byte, 32)
	a[0] = 'u'
	a[1] = byte(i + 1)
	for j := 2; j < 31; j++ {
		a[j] = byte(0x10 + i)
	}
	a[31] = byte(shard)
	return a
}

func ContractAddr(i int, shard uint32) []byte {
	a := make([]byte, 32)
	a[8] = 5
	a[9] = 0
	a[10] = 'c'
	a[11] = byte(i + 1)
	for j := 12; j < 31; j++ {
		a[j] = byte(0x80 + i)
	}
	a[31] = byte(shard)
	return a
}

// MetaContractAddr builds a metachain-pattern contract address.
func MetaContractAddr(i int) []byte {
	a := make([]byte, 32)
	a[8] = 0
	a[9] = 1
	a[29] = byte(i + 3)
	a[30] = 255
	a[31] = 255
	return a
}

// RandSchedule draws a schedule with pairwise distinct non-zero 32-bit-safe entries such that
// every (base cost, per-byte price) pair identifies its schedule.
func RandSchedule(r *rand.Rand, gen int) Schedule {
	s := Schedule{Base: map[string]uint64{}, BuiltIn: map[string]uint64{}}
	used := map[uint64]bool{}
	draw := func(lo, span int64) uint64 {
		for {
			v := uint64(lo + r.Int63n(span))
			if !used[v] {
				used[v] = true
				return v
			}
		}
	}
	for _, n := range BaseCostNames {
		s.Base[n] = draw(int64(3+gen*2), 40)
	}
	for _, n := range BuiltInCostNames {
		s.BuiltIn[n] = draw(int64(1000+gen*100000), 90000)
	}
	return s
}

// NewWorld builds the world of a configuration: universe, shards, genesis accounts.
func NewWorld(cfg Config) (*World, error) {
	// the process log level is a node configuration like any other (operators do run with TRACE);
	// nothing is written anywhere (no observer), only the level is set
	logger.ClearLogObservers()
	if cfg.TraceLog {
		_ = logger.SetLogLevel("*:TRACE")
	} else {
		_ = logger.SetLogLevel("*:INFO")
	}
	r := rand.New(rand.NewSource(cfg.CfgSeed))
	u := &Universe{NumShards: cfg.NumShards, Owner: map[string][]byte{}}
	for i := 0; i < cfg.NumUsers; i++ {
		u.Users = append(u.Users, UserAddr(i, uint32(i)%cfg.NumShards))
	}
	if cfg.OddUser && len(u.Users) > 1 {
		// an ordinary holder whose address has the shape of a per-shard system account address (30
		// bytes 0xff, then two more): nothing in the statements sets such a holder apart
		i := len(u.Users) - 1
		a := bytes.Repeat([]byte{0xff}, 32)
		a[30], a[31] = 0x0d, u.Users[i][31]
		u.Users[i] = a
	}
	for i := 0; i < cfg.NumContracts; i++ {
		u.Contracts = append(u.Contracts, ContractAddr(i, uint32(i+1)%cfg.NumShards))
	}
	dns := ContractAddr(40, 0)
	u.DNS = [][]byte{dns}
	if r.Intn(2) == 0 && cfg.NumShards > 1 {
		u.DNS = append(u.DNS, ContractAddr(41, 1))
	}
	switch cfg.NumDNS {
	case -1:
		u.DNS = nil
	case 1:
		u.DNS = [][]byte{dns}
	case 2:
		u.DNS = [][]byte{dns, ContractAddr(41, 1%cfg.NumShards)}
	default:
		if cfg.NumDNS > 2 {
			// a network-sized registry (the live one has 256 addresses)
			u.DNS = nil
			for i := 0; i < cfg.NumDNS; i++ {
				u.DNS = append(u.DNS, ContractAddr(40+i, uint32(i)%cfg.NumShards))
			}
		}
	}
	for i := 0; i < 2; i++ {
		u.MetaAddrs = append(u.MetaAddrs, MetaContractAddr(i))
	}
	// a metachain contract whose address differs from the ESDT system contract's in the last-but-one byte only
	look := append([]byte{}, spec.ESDTSystemSC...)
	look[30] = 0xfe
	u.MetaAddrs = append(u.MetaAddrs, look)
	tickers := []string{"FUN", "SFT", "NFT", "GOLD", "ART"}
	kinds := []int{KindFungible, KindSFT, KindNFT, KindFungible, KindSFT}
	for i := 0; i < cfg.NumTokens && i < len(tickers); i++ {
		sfx := make([]byte, 3)
		r.Read(sfx)
		id := []byte(tickers[i] + "-" + hex.EncodeToString(sfx))
		if cfg.LongIDs {
			// the library puts no bound on identifiers: these are 60+ bytes and share their first 54
			id = append(bytes.Repeat([]byte("L"), 54), id...)
		}
		u.Tokens = append(u.Tokens, &TokenInfo{ID: id, Kind: kinds[i], Roles: map[string]map[string]bool{}, Frozen: map[string]bool{}})
	}
	payTable := map[string]int{}
	var deployTrouble []string
	dep := parsers.NewDeployArgsParser()
	type genesis struct {
		addr  []byte
		meta  []byte
		owner []byte
		rew   *big.Int
	}
	var gens []genesis
	for i, c := range u.Contracts {
		st := Payable
		switch x := r.Intn(20); {
		case x < 9:
			st = Payable
		case x < 17:
			st = NonPayable
		default:
			st = PayErroring
		}
		md := vmcommon.CodeMetadata{Payable: st == Payable, Upgradeable: r.Intn(2) == 0, Readable: r.Intn(2) == 0}
		// contract accounts come into being through the real deploy-arguments parser
		code := []byte{0xde, 0xad, byte(i)}
		if r.Intn(40) == 0 {
			// an ordinary-sized contract: one field of more than 64 K hex characters
			code = append(code, make([]byte, []int{32765, 32766, 40000}[r.Intn(3)])...)
		}
		var ctorArgs [][]byte
		for k := r.Intn(4); k > 0; k-- {
			a := make([]byte, r.Intn(3))
			r.Read(a)
			ctorArgs = append(ctorArgs, a) // empty arguments included, also in last position
		}
		deploy := hex.EncodeToString(code) + "@0500@" + hex.EncodeToString(md.ToBytes())
		for _, a := range ctorArgs {
			deploy += "@" + hex.EncodeToString(a)
		}
		da, err := dep.ParseData(deploy)
		if err != nil {
			deployTrouble = append(deployTrouble, fmt.Sprintf("deploy parser refused %q: %v", deploy, err))
			da = &parsers.DeployArgs{CodeMetadata: md}
		} else if da.CodeMetadata != md || !bytes.Equal(da.Code, code) || !bytes.Equal(da.VMType, []byte{5, 0}) || !eqArgs(da.Arguments, ctorArgs) {
			deployTrouble = append(deployTrouble, fmt.Sprintf("deploy data %q parses to code=%x vm=%x meta=%+v args=%x, encoded were code=%x vm=0500 meta=%+v args=%x", deploy, da.Code, da.VMType, da.CodeMetadata, da.Arguments, code, md, ctorArgs))
			da.CodeMetadata = md
		}
		payTable[string(c)] = st
		var owner []byte
		if len(u.Users) > 0 {
			owner = u.Users[r.Intn(len(u.Users))]
		}
		if i > 0 && r.Intn(4) == 0 {
			owner = u.Contracts[i-1]
		}
		u.Owner[string(c)] = owner
		gens = append(gens, genesis{addr: c, meta: da.CodeMetadata.ToBytes(), owner: owner, rew: big.NewInt(int64(r.Intn(1000)))})
	}
	for _, d := range u.DNS {
		payTable[string(d)] = Payable
		gens = append(gens, genesis{addr: d, meta: []byte{0, 2}, owner: nil, rew: big.NewInt(0)})
	}
	w := &World{Cfg: cfg, U: u, Ghost: spec.NewGhost(), Stats: newStats(), Dead: map[string]*Msg{}, StopAtFirst: true}
	sr := rand.New(rand.NewSource(cfg.SchedSeed))
	dnsList := []string{}
	for _, d := range u.DNS {
		dnsList = append(dnsList, string(d))
	}
	sort.Strings(dnsList)
	intruder := ""
	if cfg.HostReusesDNSMap && len(u.Users) > 0 {
		intruder = string(u.Users[0])
	}
	for s := uint32(0); s < cfg.NumShards; s++ {
		nd, err := NewNode(s, cfg.NumShards, NodeCfg{DNS: dnsList, EnableUserNameChange: cfg.NameChange, ActivationEpoch: cfg.ActivationEpoch, LateSchedule: cfg.LateSchedule, DNSIntruder: intruder, TypedNilAccounts: cfg.TypedNilAccounts},
			RandSchedule(sr, 0), cfg.StartEpoch, payTable)
		if err != nil {
			// the factory refused a valid configuration (or could not build its container): there is no
			// world to run, and that is what C18 says cannot happen
			w.Broken = true
			w.StopAtFirst = true
			w.violate(spec.Violation{Props: spec.P("C18"), Clause: "construction", Detail: fmt.Sprintf("building the functions of shard %d from a valid configuration failed: %v", s, err)})
			return w, nil
		}
		nd.Store.ScratchReads = cfg.ScratchReads
		nd.Store.NilTrie = cfg.NilTrie
		nd.Codec.Report = func(detail string) {
			w.violate(spec.Violation{Props: spec.P("C14"), Clause: "codec", Detail: detail})
		}
		w.Nodes = append(w.Nodes, nd)
	}
	for _, g := range gens {
		sh := ShardOf(g.addr, cfg.NumShards)
		a := spec.NewAcct()
		a.CodeMetadata = g.meta
		a.Owner = g.owner
		a.DevReward = g.rew
		w.Nodes[sh].Store.Accts[string(g.addr)] = a
	}
	if cfg.PreHistory {
		// pre-history (written with the oracle's reference encoder): for each SFT/NFT token a creator
		// that holds the create role (plus the other roles of the kind), a counter near a byte
		// boundary and one old piece (nonce 1) it still holds
		// byte-length boundaries of the big-endian spelling and of the base-128 (varint) spelling
		counters := []uint64{254, 255, 256, 510, 511, 65534, 65535, 1<<32 - 2, 126, 127, 16382, 16383, 1<<21 - 2, 1<<21 - 1, 1<<28 - 1, 1<<35 - 1, 1<<63 - 1, 1<<63 + 5}
		for i, t := range u.Tokens {
			if t.Kind == KindFungible || len(u.Users) == 0 || r.Intn(3) == 0 {
				continue
			}
			creator := u.Users[(i*3+int(cfg.CfgSeed&7))%len(u.Users)]
			if r.Intn(3) == 0 && len(u.Contracts) > 0 {
				creator = u.Contracts[r.Intn(len(u.Contracts))]
			}
			sh := ShardOf(creator, cfg.NumShards)
			acc, ok := w.Nodes[sh].Store.Accts[string(creator)]
			if !ok {
				acc = spec.NewAcct()
				w.Nodes[sh].Store.Accts[string(creator)] = acc
			}
			c0 := counters[r.Intn(len(counters))]
			roles := &spec.Roles{}
			held := map[string]bool{}
			for _, role := range RolesForKind(t.Kind) {
				roles.Roles = append(roles.Roles, []byte(role))
				held[role] = true
			}
			acc.Storage[spec.RoleKey(t.ID)] = spec.EncodeRoles(roles)
			acc.Storage[spec.CounterKey(t.ID)] = spec.NonceBytes(c0)
			qty := big.NewInt(int64(1 + r.Intn(9)))
			if t.Kind == KindNFT {
				qty = big.NewInt(1)
			}
			old := &spec.Token{Type: 1, Value: qty, Meta: &spec.Meta{Nonce: 1, Name: []byte("old"), Creator: creator, Royalties: 5, Hash: []byte("h1"), Attributes: []byte("a"), URIs: [][]byte{[]byte("u")}}}
			acc.Storage[spec.TokenKey(t.ID, 1)] = spec.EncodeToken(old)
			w.Ghost.Supply[spec.TokenKey(t.ID, 1)] = new(big.Int).Set(qty)
			w.Ghost.MaxIssued[string(t.ID)] = c0
			t.Assigned, t.Creator = true, string(creator)
			t.Roles[string(creator)] = held
			w.Stats.Probes["pre-history-creator"]++
		}
		// ... and for each fungible token one holder whose entry was frozen and un-frozen long ago:
		// the un-freeze of the released code leaves the two property bytes behind as 00 00, so entries
		// of that form are on disk whatever later versions write
		for i, t := range u.Tokens {
			if t.Kind != KindFungible || len(u.Users) == 0 || r.Intn(2) == 0 {
				continue
			}
			holder := u.Users[(i*5+int(cfg.CfgSeed&3))%len(u.Users)]
			sh := ShardOf(holder, cfg.NumShards)
			acc, ok := w.Nodes[sh].Store.Accts[string(holder)]
			if !ok {
				acc = spec.NewAcct()
				w.Nodes[sh].Store.Accts[string(holder)] = acc
			}
			qty := big.NewInt(int64(1 + r.Intn(500)))
			acc.Storage[spec.TokenKey(t.ID, 0)] = spec.EncodeToken(&spec.Token{Value: qty, Properties: []byte{0, 0}})
			w.Ghost.Supply[spec.TokenKey(t.ID, 0)] = new(big.Int).Set(qty)
			w.Stats.Probes["pre-history-once-frozen-holder"]++
		}
	}
	for _, d := range deployTrouble {
		w.violate(spec.Violation{Props: spec.P("C12"), Clause: "deploy-roundtrip", Detail: d})
	}
	pc := NewCodec(NewFaultPlan())
	pc.Check = false
	p, err := parsers.NewESDTTransferParser(pc)
	if err != nil {
		return nil, err
	}
	w.parser = p
	return w, nil
}

// MsgOfTx builds the message of a submitted transaction.
func (w *World) MsgOfTx(n int, t *TxJSON) *Msg {
	snd, rcv := unhx(t.Snd), unhx(t.Rcv)
	v := big.NewInt(0)
	if t.Value != "" {
		v.SetString(t.Value, 10)
	}
	return &Msg{ID: fmt.Sprintf("%d.t", n), Kind: KindUserTx, Snd: snd, Rcv: rcv, Data: t.Data, Value: v, Gas: t.Gas, GasLocked: t.GasLocked,
		CallType: vmcommon.CallType(t.CallType), ReturnErr: t.ReturnErr, SrcShard: ShardOf(snd, w.Cfg.NumShards), DstShard: ShardOf(snd, w.Cfg.NumShards), OrigCallType: vmcommon.CallType(t.CallType)}
}

// Apply executes one event; it returns false when the event was not applicable (replay of a
// minimised trace skips such events).
func (w *World) Apply(ev Event) bool {
	w.curN = ev.N
	if ev.N >= w.NextN {
		w.NextN = ev.N + 1
	}
	w.Stats.Events++
	applied := true
	switch ev.K {
	case "tx":
		if ev.Tx == nil {
			return false
		}
		m := w.MsgOfTx(ev.N, ev.Tx)
		if len(m.Snd) != 32 || len(m.Rcv) != 32 || m.DstShard == spec.MetaShard {
			// the node's interceptors refuse transactions whose sender or receiver is not an address
			return false
		}
		w.logf("tx %d snd=%x rcv=%x %s gas=%d fault=%v", ev.N, m.Snd, m.Rcv, m.Data, m.Gas, ev.Fault)
		w.checkBuilder(ev.Tx)
		if w.Stop() {
			break
		}
		w.Run(m, ev.Fault)
	case "deliver":
		applied = w.Deliver(ev.ID, ev.Fault)
	case "redeliver":
		applied = w.Redeliver(ev.ID, ev.Fault)
	case "sc":
		if ev.SC == nil {
			return false
		}
		w.logf("sc %d %+v", ev.N, *ev.SC)
		applied = w.ApplySC(ev.SC)
	case "epoch":
		if ev.Shard >= uint32(len(w.Nodes)) {
			return false
		}
		nd := w.Nodes[ev.Shard]
		prev := nd.Clock.Current
		nd.Clock.Confirm(ev.Epoch, uint64(ev.PSeed))
		w.Stats.EpochEvents++
		switch {
		case ev.Epoch < prev:
			w.Stats.Faults["epoch-regression"]++
		case ev.Epoch == prev:
			w.Stats.Faults["epoch-repeat"]++
		case ev.Epoch > prev+1:
			w.Stats.Faults["epoch-jump"]++
		}
		w.logf("epoch shard=%d %d -> %d", ev.Shard, prev, ev.Epoch)
		w.CheckRegistry(nd)
	case "sched":
		if ev.Shard >= uint32(len(w.Nodes)) || ev.Sched == nil {
			return false
		}
		nd := w.Nodes[ev.Shard]
		if ev.Probe == "direct" {
			// the host tells some function objects a schedule directly (ev.ID: comma-separated names,
			// empty = all); only well-formed schedules are offered this way (validation is the factory's)
			if !ev.Sched.Valid() {
				return false
			}
			names := append([]string{}, spec.AllFunctions...)
			if ev.ID != "" {
				names = strings.Split(ev.ID, ",")
			}
			sort.Strings(names)
			n := nd.RepriceDirect(names, *ev.Sched)
			w.Stats.Faults["schedule-told-to-function-objects-directly"] += n
			w.logf("sched-direct shard=%d names=%q", ev.Shard, ev.ID)
			break
		}
		if nd.ChangeSchedule(*ev.Sched) {
			w.Stats.SchedAccepted++
		} else {
			w.Stats.SchedRejected++
			w.Stats.Faults["rejected-schedule"]++
		}
		w.logf("sched shard=%d valid=%v", ev.Shard, ev.Sched.Valid())
	case "restart":
		if ev.Shard >= uint32(len(w.Nodes)) {
			return false
		}
		restart := w.Nodes[ev.Shard].Restart
		if ev.Probe == "same-factory" {
			restart = w.Nodes[ev.Shard].Rebuild
			w.Stats.Faults["rebuild-from-same-factory"]++
		}
		if err := restart(); err != nil {
			w.violate(spec.Violation{Props: spec.P("C18"), Clause: "restart", Detail: fmt.Sprintf("rebuilding the container of shard %d failed: %v", ev.Shard, err)})
		}
		w.Stats.Restarts++
		w.Stats.Faults["node-restart"]++
		w.logf("restart shard=%d", ev.Shard)
		w.CheckRegistry(w.Nodes[ev.Shard])
	case "hostapi":
		// the host modifies the live container through its public API: one function without a
		// cross-shard leg is removed (calls to it then fail as unknown; everything else is as before)
		if ev.Shard >= uint32(len(w.Nodes)) {
			return false
		}
		if ev.Probe == "replace" {
			// a fresh instance of a function (built by another factory with the same configuration) is
			// put under the same name; the function must not have been removed
			known := false
			for _, n := range spec.AllFunctions {
				known = known || n == ev.ID
			}
			nd := w.Nodes[ev.Shard]
			if !known || nd.HostRemoved[ev.ID] {
				return false
			}
			if err := nd.HostReplace(ev.ID); err != nil {
				w.violate(spec.Violation{Props: spec.P("C18"), Clause: "registry", Detail: fmt.Sprintf("shard %d: replacing %s by a fresh instance through the container API failed: %v", nd.ID, ev.ID, err)})
				break
			}
			w.Stats.Faults["function-replaced-by-fresh-instance-by-host"]++
			w.logf("host replaces %s in the container of shard %d by a fresh instance", ev.ID, ev.Shard)
			w.CheckRegistry(nd)
			break
		}
		ok := false
		for _, n := range RemovableFunctions {
			ok = ok || n == ev.ID
		}
		if !ok || w.Nodes[ev.Shard].HostRemoved[ev.ID] {
			return false
		}
		w.Nodes[ev.Shard].HostRemove(ev.ID)
		w.Stats.Faults["function-removed-from-live-container-by-host"]++
		w.logf("host removes %s from the container of shard %d", ev.ID, ev.Shard)
		w.CheckRegistry(w.Nodes[ev.Shard])
	case "upgrade":
		// a contract upgrade changes its code metadata: the payability oracle's answer for that
		// address changes from now on (on every shard: one table)
		addr := unhx(ev.ID)
		sh := ShardOf(addr, w.Cfg.NumShards)
		if len(addr) != 32 || !spec.IsContract(addr) || sh >= uint32(len(w.Nodes)) {
			return false
		}
		st := int(ev.Epoch) % 3
		if w.Nodes[0].Pay.StateOf(addr) == Payable && st != Payable {
			// world assumption (contracts that send cross-shard by direct call are payable when their
			// refund arrives): a payable contract is only downgraded while nothing it sent, and no
			// refund to it, is in flight
			for _, m := range w.Pool {
				if bytes.Equal(m.Snd, addr) || bytes.Equal(m.Rcv, addr) {
					return false
				}
			}
		}
		for _, nd := range w.Nodes {
			nd.Pay.Table[string(addr)] = st
		}
		if acc, ok := w.Nodes[sh].Store.Accts[string(addr)]; ok {
			md := vmcommon.CodeMetadata{Payable: st == Payable, Upgradeable: true}
			acc.CodeMetadata = md.ToBytes()
		}
		w.Stats.Faults["payability-changed-by-upgrade"]++
		w.logf("upgrade %x -> payability state %d", addr, st)
	case "quiesce":
		// end of a run: faults are off, lagging clocks are brought forward, and everything in flight is
		// delivered (with the refunds and continuations that causes). Bounded liveness: afterwards
		// nothing is left in flight
		w.Drain(4*len(w.Pool) + 50)
		if !w.Stop() && len(w.Pool) > 0 {
			w.reportStuck()
		}
	case "probe":
		applied = w.Probe(ev)
	default:
		return false
	}
	// everything has been read from the outputs of this event's calls: their owner now uses them up
	w.checkRetained()
	for _, o := range w.toConsume {
		w.retain(o)
		w.hostFold(o)
		if problem := ConsumeOutput(o); problem != "" {
			w.violate(spec.Violation{Props: spec.P("C01", "C10", "C13"), Clause: "output-ownership", Detail: problem})
		}
	}
	w.toConsume = w.toConsume[:0]
	for _, ex := range w.toReuse {
		ReuseInput(ex)
	}
	w.toReuse = w.toReuse[:0]
	if applied && !(w.Stop()) {
		// (after a violation the event was abandoned half-way: the world is not judged further)
		w.CheckInvariants()
		if w.KeepLog {
			w.Log = append(w.Log, fmt.Sprintf("  hash %016x pool=%d", w.Hash(), len(w.Pool)))
		}
	}
	return applied
}

// checkBuilder replays the builder calls that produced a transaction's data string (C12).
func (w *World) checkBuilder(t *TxJSON) {
	if t.Fn == "" {
		return
	}
	args := make([][]byte, len(t.Args))
	for i, a := range t.Args {
		args[i] = unhx(a)
	}
	var data, pan string
	func() {
		defer func() {
			if r := recover(); r != nil {
				pan = fmt.Sprint(r)
			}
		}()
		data = Rebuild(t.Fn, args, t.Ops)
	}()
	if pan != "" {
		w.violate(spec.Violation{Props: spec.P("C12"), Clause: "builder", Detail: fmt.Sprintf("the tx-data builder panicked on %s%x: %s", t.Fn, args, pan)})
		return
	}
	w.CheckBuilt(t.Fn, args, data)
}

// RemovableFunctions have no cross-shard leg: removing one breaks no continuation, refund or control message.
var RemovableFunctions = []string{spec.FnClaimRewards, spec.FnChangeOwner, spec.FnSaveKeyValue, spec.FnLocalMint, spec.FnLocalBurn, spec.FnNFTBurn, spec.FnNFTAddQuantity}

// CheckRegistry checks C18's registry half and the activation flags of a shard.
func (w *World) CheckRegistry(nd *Node) {
	if nd.BuildProblem != "" {
		w.violate(spec.Violation{Props: spec.P("C09"), Clause: "fail-open-default", Detail: fmt.Sprintf("shard %d: %s", nd.ID, nd.BuildProblem)})
		nd.BuildProblem = ""
	}
	names := nd.ContainerNames()
	var want []string
	for _, n := range spec.AllFunctions {
		if !nd.HostRemoved[n] {
			want = append(want, n)
		}
	}
	sort.Strings(want)
	if fmt.Sprint(names) != fmt.Sprint(want) || nd.Container.Len() != len(want) {
		w.violate(spec.Violation{Props: spec.P("C18"), Clause: "registry", Detail: fmt.Sprintf("shard %d container holds %v (len %d), the protocol defines %v", nd.ID, names, nd.Container.Len(), want)})
		return
	}
	// the container answers for these names and for no other: a name that merely looks like one
	// (surrounding white space, another case, a cut or extended spelling) is not a built-in function
	for _, n := range spec.AllFunctions {
		for _, v := range []string{n + " ", " " + n, n + "\n", "\t" + n, n + "\x00", strings.ToLower(n), strings.ToUpper(n), n[:len(n)-1], n + "2", n + "@"} {
			if v == n {
				continue
			}
			if bf, err := nd.Container.Get(v); err == nil && bf != nil {
				w.violate(spec.Violation{Props: spec.P("C18"), Clause: "registry", Detail: fmt.Sprintf("shard %d: the container resolves %q, which is not one of the protocol's names", nd.ID, v)})
				return
			}
		}
	}
	for _, n := range want {
		bf, err := nd.Container.Get(n)
		if err != nil {
			w.violate(spec.Violation{Props: spec.P("C18"), Clause: "registry", Detail: fmt.Sprintf("shard %d: Get(%q) failed: %v", nd.ID, n, err)})
			continue
		}
		w.checkActivation(nd, n, bf.IsActive())
	}
}

// Drain delivers everything that is in flight (faults off), bringing lagging clocks forward first.
func (w *World) Drain(maxSteps int) []Event {
	var evs []Event
	maxE := uint32(0)
	for _, nd := range w.Nodes {
		if nd.Clock.Current > maxE {
			maxE = nd.Clock.Current
		}
	}
	if maxE < w.Cfg.ActivationEpoch {
		maxE = w.Cfg.ActivationEpoch
	}
	for _, nd := range w.Nodes {
		if nd.Clock.Current < maxE {
			ev := Event{N: w.NextN, K: "epoch", Shard: nd.ID, Epoch: maxE}
			w.Apply(ev)
			evs = append(evs, ev)
		}
	}
	for steps := 0; len(w.Pool) > 0 && steps < maxSteps; steps++ {
		progressed := false
		for _, m := range append([]*Msg{}, w.Pool...) {
			ev := Event{N: w.NextN, K: "deliver", ID: m.ID}
			if w.Apply(ev) {
				evs = append(evs, ev)
				progressed = true
				break
			}
		}
		if !progressed || (w.Stop()) {
			break
		}
	}
	return evs
}

// retained: message bytes of earlier outputs that their receiver still holds by reference (a host
// that sends a block's messages after the block), with a private copy of what they said.
type retained struct {
	data []byte
	want string
}

// retain keeps references to the data of an output's transfers (at most 48 are held).
func (w *World) retain(out *vmcommon.VMOutput) {
	if out == nil {
		return
	}
	keys := make([]string, 0, len(out.OutputAccounts))
	for k := range out.OutputAccounts {
		keys = append(keys, k)
	}
	sort.Strings(keys)
	for _, k := range keys {
		oa := out.OutputAccounts[k]
		if oa == nil {
			continue
		}
		for _, t := range oa.OutputTransfers {
			if len(t.Data) > 0 {
				w.held = append(w.held, retained{t.Data, string(t.Data)})
			}
		}
	}
	if len(w.held) > 48 {
		w.held = w.held[len(w.held)-48:]
	}
}

// checkRetained: what an earlier call returned must not change because later calls ran (C13, and
// with it what C08/C10 say about messages: the bytes are the message).
func (w *World) checkRetained() {
	for _, h := range w.held {
		if string(h.data) != h.want {
			w.violate(spec.Violation{Props: spec.P("C13", "C10", "C08", "C01"), Clause: "output-ownership", Detail: fmt.Sprintf("the data of an output transfer returned by an earlier call said %q and says %q after later calls", h.want, h.data)})
			w.held = nil
			return
		}
	}
}

// reportStuck: messages that cannot be consumed although no fault is injected any more. Tokens they
// carry are neither at their destination nor back at their sender (C01); when the function they
// address is missing from the container or inactive against the confirmed epoch, that is the cause (C18).
func (w *World) reportStuck() {
	props := spec.P("C01", "C10")
	var parts []string
	for _, m := range w.Pool {
		why := "refused or not consumed"
		fn, _, err := spec.ParseData(m.Data)
		if err == nil && int(m.DstShard) >= 0 && m.DstShard < uint32(len(w.Nodes)) {
			nd := w.Nodes[m.DstShard]
			bf, gerr := nd.Container.Get(fn)
			switch {
			case gerr != nil && !nd.HostRemoved[fn]:
				why = "the container of shard " + fmt.Sprint(nd.ID) + " has no function of that name"
				props = append(props, "C18")
			case gerr == nil && !bf.IsActive():
				why = fmt.Sprintf("the function is inactive on shard %d (confirmed epoch %d, activation epoch %d)", nd.ID, nd.Clock.Current, nd.Cfg.ActivationEpoch)
				if nd.Clock.Current >= nd.Cfg.ActivationEpoch || !epochGated[fn] {
					props = append(props, "C18")
				}
			}
		}
		parts = append(parts, fmt.Sprintf("%s (%s) %q to %x: %s", m.ID, m.Kind, trunc(m.Data, 80), m.Rcv, why))
		if len(parts) >= 4 {
			break
		}
	}
	w.violate(spec.Violation{Props: props, Clause: "stuck-in-flight", Detail: fmt.Sprintf("with faults off and every message offered for delivery, %d message(s) stay in flight: %s", len(w.Pool), strings.Join(parts, "; "))})
}

func trunc(s string, n int) string {
	if len(s) > n {
		return s[:n] + "..."
	}
	return s
}

// hostFold: the host keeps one accumulated output account per address and folds every later
// snapshot of that account into it with the library's MergeOutputAccounts, the way a VM host folds
// the output of a nested call into an earlier checkpoint: the later snapshot lists the transfers so
// far plus the new ones, the merge takes over the new ones. Afterwards the accumulated account must
// list exactly what the snapshots listed (C01/C10: a message taken over wrongly is a message lost
// and another one sent twice).
func (w *World) hostFold(out *vmcommon.VMOutput) {
	if out == nil {
		return
	}
	if w.folded == nil {
		w.folded = map[string]*vmcommon.OutputAccount{}
		w.foldedWant = map[string][]string{}
	}
	keys := make([]string, 0, len(out.OutputAccounts))
	for k := range out.OutputAccounts {
		keys = append(keys, k)
	}
	sort.Strings(keys)
	for _, k := range keys {
		oa := out.OutputAccounts[k]
		if oa == nil || len(oa.OutputTransfers) == 0 {
			continue
		}
		acc := w.folded[k]
		if acc == nil || len(acc.OutputTransfers) >= 6 {
			acc = &vmcommon.OutputAccount{}
			w.folded[k] = acc
			w.foldedWant[k] = nil
		}
		// the later snapshot: what the account listed so far, then this call's transfers (copies)
		snap := &vmcommon.OutputAccount{Address: append([]byte{}, oa.Address...)}
		snap.OutputTransfers = append(snap.OutputTransfers, acc.OutputTransfers...)
		for _, t := range oa.OutputTransfers {
			c := t
			c.Data = append([]byte{}, t.Data...)
			if t.Value != nil {
				c.Value = new(big.Int).Set(t.Value)
			}
			snap.OutputTransfers = append(snap.OutputTransfers, c)
			w.foldedWant[k] = append(w.foldedWant[k], string(t.Data))
		}
		acc.MergeOutputAccounts(snap)
		var got []string
		for _, t := range acc.OutputTransfers {
			got = append(got, string(t.Data))
		}
		if fmt.Sprint(got) != fmt.Sprint(w.foldedWant[k]) {
			w.violate(spec.Violation{Props: spec.P("C01", "C10"), Clause: "output-ownership", Detail: fmt.Sprintf("the host folded a later snapshot of the output account %x into its checkpoint with MergeOutputAccounts: the checkpoint lists %q, the snapshots listed %q", k, got, w.foldedWant[k])})
			w.folded[k] = nil
		}
	}
}
