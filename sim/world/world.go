package world

import (
	"bytes"
	"encoding/hex"
	"fmt"
	"math/big"
	"sort"
	"strings"

	vmcommon "github.com/ElrondNetwork/elrond-vm-common"
	"github.com/ElrondNetwork/elrond-vm-common/parsers"
	"github.com/ElrondNetwork/elrond-vm-common/txDataBuilder"

	"verifsim/spec"
)

// Token kinds known to the system-contract model.
const (
	KindFungible = 0
	KindSFT      = 1
	KindNFT      = 2
)

// TokenInfo is the system-contract model's registry entry for an issued token.
type TokenInfo struct {
	ID       []byte
	Kind     int
	Roles    map[string]map[string]bool // address -> role -> intended
	Creator  string                     // intended holder of the create role ("" = none)
	Assigned bool                       // the create role has been given out once
	Pending  bool                       // a hand-over is in flight
	Lost     bool                       // a hand-over was lost to an injected fault
	Frozen   map[string]bool
	Paused   bool
}

// Universe is the static part of a run, a pure function of the configuration seed.
type Universe struct {
	NumShards uint32
	Users     [][]byte
	Contracts [][]byte
	DNS       [][]byte
	Tokens    []*TokenInfo
	Owner     map[string][]byte // contract -> initial owner
	MetaAddrs [][]byte          // metachain-pattern contract addresses (adversarial destinations)
}

// Config is the part of a replay file that rebuilds the world.
type Config struct {
	CfgSeed int64 `json:"cfg_seed"`
	// Knobs drawn per run (swarm); recorded so that replay does not depend on the PRNG.
	NumShards       uint32 `json:"num_shards"`
	NumUsers        int    `json:"num_users"`
	NumContracts    int    `json:"num_contracts"`
	NumTokens       int    `json:"num_tokens"`
	ActivationEpoch uint32 `json:"activation_epoch"`
	StartEpoch      uint32 `json:"start_epoch"`
	NameChange      bool   `json:"name_change"`
	FIFO            bool   `json:"fifo"`
	SchedSeed       int64  `json:"sched_seed"`
	// NumDNS: number of configured DNS addresses; -1 = none (an empty, non-nil map), 0 = legacy (one or two, drawn from CfgSeed); more than two: that many
	NumDNS int `json:"num_dns,omitempty"`
	// PreHistory: some creators start with a long past (counter near a byte boundary, an old NFT
	// still held): states that are reachable through built-in calls but too far away to walk to
	PreHistory bool `json:"pre_history,omitempty"`
	// LateSchedule: the nodes' factories are constructed with an older schedule and are told the
	// schedule in force through GasScheduleChange BEFORE their first container is created
	LateSchedule bool `json:"late_schedule,omitempty"`
	// OddUser: one user's address has the shape of a per-shard system account address
	OddUser bool `json:"odd_user,omitempty"`
	// HostReusesDNSMap: after building, the host adds a never-configured address (user 0) to the map
	// object it had passed to the factory and drops a configured one
	HostReusesDNSMap bool `json:"host_reuses_dns_map,omitempty"`
	// LongIDs: token identifiers are 60+ bytes long and share a 54-byte prefix
	LongIDs bool `json:"long_ids,omitempty"`
	// TraceLog: the process log level is TRACE (otherwise INFO)
	TraceLog bool `json:"trace_log,omitempty"`
	// ScratchReads: the stores hand out storage values as views of one reusable read buffer
	ScratchReads bool `json:"scratch_reads,omitempty"`
	// NilTrie: reading from an account that has never stored anything is an error (no data trie)
	NilTrie bool `json:"nil_trie,omitempty"`
	// TypedNilAccounts: the node hands the functions "no account here" as an account handle whose
	// pointer is nil (a nil *Handle inside the interface) instead of a nil interface; the library's
	// own idiom for both is check.IfNil
	TypedNilAccounts bool `json:"typed_nil_accounts,omitempty"`
}

// Event is one step of a run; a replay file is a Config plus a list of Events.
type Event struct {
	N     int       `json:"n"`
	K     string    `json:"k"` // tx | deliver | redeliver | sc | epoch | sched | restart | probe
	Shard uint32    `json:"shard,omitempty"`
	Tx    *TxJSON   `json:"tx,omitempty"`
	ID    string    `json:"id,omitempty"`
	Fault []int     `json:"fault,omitempty"` // [kind, k] or [kind, k, manifestation]
	SC    *SCAction `json:"sc,omitempty"`
	Epoch uint32    `json:"epoch,omitempty"`
	Sched *Schedule `json:"sched,omitempty"`
	Probe string    `json:"probe,omitempty"`
	PSeed int64     `json:"pseed,omitempty"`
}

// TxJSON is the serialisable form of a submitted transaction.
type TxJSON struct {
	Snd       string `json:"snd"`
	Rcv       string `json:"rcv"`
	Data      string `json:"data"`
	Value     string `json:"value,omitempty"`
	Gas       uint64 `json:"gas"`
	GasLocked uint64 `json:"gas_locked,omitempty"`
	CallType  int    `json:"call_type,omitempty"`
	ReturnErr bool   `json:"return_err,omitempty"`
	// how Data was produced with the repository's tx-data builder: function, hex arguments and the
	// builder method used per argument (replayed and checked by Apply, C12)
	Fn   string   `json:"fn,omitempty"`
	Args []string `json:"args,omitempty"`
	Ops  []string `json:"ops,omitempty"`
}

// SCAction is one action of the system-contract model.
type SCAction struct {
	Op     string   `json:"op"` // issue | setrole | unsetrole | freeze | unfreeze | wipe | pause | unpause | handover
	Token  string   `json:"token"`
	Addr   string   `json:"addr,omitempty"`
	Addr2  string   `json:"addr2,omitempty"`
	Roles  []string `json:"roles,omitempty"`
	Amount string   `json:"amount,omitempty"`
	// drop: a protocol-level credit message from a metachain contract (Addr2: the ESDT system
	// contract or another metachain contract) in destination-side form
	Fn        string `json:"fn,omitempty"`
	Nonce     uint64 `json:"nonce,omitempty"`
	Payload   string `json:"payload,omitempty"` // hex of the NFT payload (nonce > 0)
	ReturnErr bool   `json:"return_err,omitempty"`
	CallType  int    `json:"call_type,omitempty"`
	// Twin: the payload carries a different hash under an existing (token, nonce). Such a message
	// is executed at once and only against an account that holds that nonce right now, so that it
	// is always refused: an accepted twin would put two different NFTs under one nonce into the
	// world, which the protocol cannot produce
	Twin bool `json:"twin,omitempty"`
}

// Stats collects what a run actually did (evidence).
type Stats struct {
	Events        int
	Calls         int
	Outcome       map[string]int // function/side/class
	Faults        map[string]int // fault kind -> fired
	Probes        map[string]int // rare-condition probes
	DepCalls      [NumDepKinds]int
	StateHashes   map[uint64]struct{}
	CallSigs      map[uint64]struct{}
	Delivered     int
	Refunds       int
	Terminal      int
	EpochEvents   int
	SchedAccepted int
	SchedRejected int
	Restarts      int
	ParserChecks  int
	Samples       []string
}

func newStats() *Stats {
	return &Stats{Outcome: map[string]int{}, Faults: map[string]int{}, Probes: map[string]int{}, StateHashes: map[uint64]struct{}{}, CallSigs: map[uint64]struct{}{}}
}

// Found is one violation found by a run.
type Found struct {
	V     spec.Violation
	Event int // stable event number
}

// World is one simulated run.
type World struct {
	Cfg      Config
	U        *Universe
	Nodes    []*Node
	Pool     []*Msg
	Dead     map[string]*Msg // delivered hand-over messages kept for duplication faults
	Ghost    *spec.Ghost
	Stats    *Stats
	Found    []Found
	Trace    []Event
	NextN    int
	curN     int
	Log      []string // human-readable event log (determinism diff)
	KeepLog  bool
	ctlIdx   int
	lastHash uint64
	// LastCredited: the contract that most recently accepted a destination-side transfer (scheduler bias)
	LastCredited []byte
	parser       vmcommon.ESDTTransferParser
	// toConsume: outputs of this event's successful calls, used up by their owner at the end of the event
	toConsume []*vmcommon.VMOutput
	// Broken: the world could not be built (recorded as a violation); no event can be applied
	Broken bool
	// held: message bytes of earlier outputs still referenced by their receiver
	held []retained
	// folded / foldedWant: the host's accumulated output account per address and what it must list
	folded     map[string]*vmcommon.OutputAccount
	foldedWant map[string][]string
	// toReuse: executions of this event whose input buffers their owner reuses at the end of the event
	toReuse []*Exec
	// options
	CheckCodec  bool
	StopAtFirst bool
	// StopProp: when set, a run only stops at a violation that speaks for this property; violations of
	// other properties are recorded and the run goes on (their consequences may speak for this one)
	StopProp string
}

// Tok returns the registry entry of a token.
func (w *World) Tok(id []byte) *TokenInfo {
	for _, t := range w.U.Tokens {
		if bytes.Equal(t.ID, id) {
			return t
		}
	}
	return nil
}

func (w *World) logf(format string, a ...interface{}) {
	if w.KeepLog {
		w.Log = append(w.Log, fmt.Sprintf(format, a...))
	}
}

// Stop says whether the run has found what it was looking for.
func (w *World) Stop() bool {
	if !w.StopAtFirst || len(w.Found) == 0 {
		return false
	}
	if w.StopProp == "" {
		return true
	}
	for _, f := range w.Found {
		if f.V.Has(w.StopProp) {
			return true
		}
	}
	return false
}

func (w *World) violate(v spec.Violation) {
	w.Found = append(w.Found, Found{V: v, Event: w.curN})
	w.logf("VIOLATION %s", v.String())
}

// States snapshots all shard states (shared, read-only).
func (w *World) States() []spec.ShardState {
	out := make([]spec.ShardState, len(w.Nodes))
	for i, nd := range w.Nodes {
		out[i] = spec.ShardState(nd.Store.Accts)
	}
	return out
}

// Env builds the oracle's view of a shard's configuration.
func (w *World) Env(nd *Node) *spec.Env {
	dns := map[string]bool{}
	for _, d := range nd.Cfg.DNS {
		dns[d] = true
	}
	env := &spec.Env{Shard: nd.ID, NumShards: nd.N, Sched: spec.GasSched{Base: nd.Sched.Base, BuiltIn: nd.Sched.BuiltIn}, DNS: dns,
		NameChange: nd.Cfg.EnableUserNameChange, PayState: nd.Pay.StateOf}
	if len(nd.Direct) > 0 {
		env.SchedOf = map[string]spec.GasSched{}
		for fn, s := range nd.Direct {
			env.SchedOf[fn] = spec.GasSched{Base: s.Base, BuiltIn: s.BuiltIn}
		}
	}
	return env
}

// CallOf converts an execution record into the oracle's Call.
func CallOf(ex *Exec) *spec.Call {
	m := ex.Msg
	c := &spec.Call{Kind: m.Kind, Func: ex.Func, Caller: m.Snd, Recipient: m.Rcv, Args: ex.Args, CallValue: m.Value, CallType: int(m.CallType),
		Gas: m.Gas, GasLocked: m.GasLocked, ReturnErr: m.ReturnErr, HasSnd: ex.HasSnd, HasDst: ex.HasDst, Pre: ex.Pre, Post: ex.Post,
		Carried: m.Carries, Mint: m.Mint, Fault: ex.FaultHit, Panic: ex.Panic}
	if ex.Panic == "" {
		switch {
		case ex.Err == nil && ex.Out != nil:
			c.OK = true
			c.RetCode = int(ex.Out.ReturnCode)
			c.GasRemaining = ex.Out.GasRemaining
			c.ReturnData = ex.Out.ReturnData
			for _, l := range ex.Out.Logs {
				if l != nil {
					c.Logs = append(c.Logs, spec.LogEntry{Identifier: l.Identifier, Address: l.Address, Topics: l.Topics, Data: l.Data})
				}
			}
			c.Transfers = ex.Transfers
		case ex.Err != nil && ex.Out == nil:
			c.Err = ex.Err.Error()
		default:
			c.NilOutOK = true
			if ex.Err != nil {
				c.Err = ex.Err.Error()
			}
		}
	}
	return c
}

var realCallParser = parsers.NewCallArgsParser()

// Run executes one message on its destination shard, judges it, updates ghost and transport.
func (w *World) Run(m *Msg, fault []int) (*Exec, *spec.Verdict) {
	nd := w.Nodes[m.DstShard]
	fk, fn := -1, 0
	if len(fault) >= 2 {
		fk, fn = fault[0], fault[1]
	}
	if len(fault) >= 3 {
		nd.FaultAlt = fault[2]
	}
	ex := nd.Execute(m, fk, fn)
	nd.FaultAlt = 0
	w.toReuse = append(w.toReuse, &Exec{backing: ex.backing, Input: ex.Input}) // (only the buffers are kept until the end of the event)
	w.Stats.Calls++
	for i, n := range ex.Deps {
		w.Stats.DepCalls[i] += n
	}
	if !ex.Parsed || !ex.Found || !ex.Active {
		cls := "unparsed"
		if ex.Parsed && !ex.Found {
			cls = "unknown-function"
		} else if ex.Parsed && ex.Found {
			cls = "inactive"
			w.checkActivation(nd, ex.Func, false)
		}
		w.Stats.Outcome[cls]++
		w.logf("  exec %s on shard %d: %s (%s)", m.ID, nd.ID, cls, ex.ParseErr)
		return ex, nil
	}
	w.checkActivation(nd, ex.Func, true)
	if ex.FaultHit {
		w.Stats.Faults["dep:"+DepNames[fk]]++
		if len(fault) >= 3 && fault[2] != 0 {
			w.Stats.Faults["dep-other-manifestation:"+DepNames[fk]]++
		}
	}
	w.parserTotality(ex)
	call := CallOf(ex)
	if ex.FaultHit && !IsHardDep(fk) {
		// a fail-soft dependency (storage read, pause lookup) failed: the interface lets the call go
		// either way, so only totality and result shape are judged; only probes inject these
		if call.Panic != "" || call.NilOutOK {
			for _, v := range spec.Judge(call, w.Env(nd)).Viol {
				w.violate(v)
			}
		} else if fk == DepTrieRead && call.OK && ex.HitKey != "" && ex.HitReads == 1 {
			// differential reading of "fail-soft": a failed read may be treated as "no value" and as
			// nothing else. The oracle judges the call with that key absent; only forbidden successes
			// (a success that even an absent value does not justify) and mismatches of role lists and
			// create counters (authority must not survive a failed read) are reported, and only when the
			// key was read once during the call (otherwise "absent" would have to be timed).
			call.AbsentAddr, call.AbsentKey = ex.HitAddr, ex.HitKey
			for _, v := range spec.Judge(call, w.Env(nd)).Viol {
				if v.Clause == "forbidden-success" || v.Clause == "role-list" || v.Clause == "counter" {
					v.Detail += fmt.Sprintf(" [the read of key %q failed during this call; a failed read may only be taken as absent]", ex.HitKey)
					w.violate(v)
				}
			}
			w.Stats.Probes["read-fault-success-judged"]++
		}
		w.Stats.Outcome[ex.Func+"/softfault"]++
		return ex, nil
	}
	vd := spec.Judge(call, w.Env(nd))
	side := "snd"
	if !ex.HasSnd {
		side = "dst"
	}
	w.Stats.Outcome[ex.Func+"/"+side+"/"+vd.Class]++
	w.Stats.CallSigs[callSig(ex.Func, side, vd.Class, m, w.lastHash)] = struct{}{}
	w.logf("  exec %s %s on shard %d caller=%x rcv=%x gas=%d ct=%d ret=%v -> %s err=%v panic=%q rem=%d", m.ID, m.Data, nd.ID, m.Snd, m.Rcv, m.Gas, m.CallType, m.ReturnErr, vd.Class, ex.Err, ex.Panic, gasRem(ex))
	for _, v := range vd.Viol {
		w.violate(v)
	}
	if ex.InputMut != "" {
		w.violate(spec.Violation{Props: spec.P("C13"), Clause: "input-modified", Detail: fmt.Sprintf("%s: %s (data %q)", ex.Func, ex.InputMut, m.Data)})
	}
	// allocation bound (C11): generous linear bound in input + touched state size
	// (linear in input + touched state, plus a quadratic term: the message encoder concatenates
	// strings, which is quadratic in the input but not driven by a number taken from the arguments)
	inLen := uint64(len(m.Data) + stateBytes(ex.Pre, m.Snd, m.Rcv))
	bound := uint64(1<<20) + 256*inLen + 4*inLen*inLen
	if ex.Alloc > bound {
		// confirm with an exact measurement of the same call from the same pre-state
		post := nd.Store.Accts
		nd.Store.Accts = ex.Pre.Clone()
		ExactAlloc = true
		cp := *m
		ex2 := nd.Execute(&cp, -1, 0)
		ExactAlloc = false
		nd.Store.Accts = post
		_, _ = nd.Store.Commit()
		w.Stats.Probes["allocation-remeasured"]++
		if ex2.Alloc <= bound {
			ex.Alloc = ex2.Alloc
		}
	}
	if ex.Alloc > bound {
		w.violate(spec.Violation{Props: spec.P("C11"), Clause: "allocation", Detail: fmt.Sprintf("%s allocated %d bytes for an input of %d bytes (bound %d): data %q", ex.Func, ex.Alloc, len(m.Data), bound, m.Data)})
	}
	// a dependency failed during the call: it must not be reported as success (C17)
	if ex.FaultHit && IsHardDep(fk) && ex.Succeeded() {
		props := spec.P("C17")
		switch ex.Func {
		case spec.FnESDTTransfer, spec.FnESDTNFTTransfer, spec.FnMultiTransfer:
			props = append(props, "C01") // a lost write reported as success loses the tokens it carried
		case spec.FnLocalMint, spec.FnLocalBurn, spec.FnBurn, spec.FnNFTCreate, spec.FnNFTAddQuantity, spec.FnNFTBurn, spec.FnWipe:
			props = append(props, "C02")
		case spec.FnCreateRoleTransfer:
			props = append(props, "C07")
		}
		w.violate(spec.Violation{Props: props, Clause: "swallowed-failure", Detail: fmt.Sprintf("%s returned Ok although %s call #%d failed (data %q)", ex.Func, DepNames[fk], fn, m.Data)})
	}
	if !ex.Succeeded() || vd.MustFail != "" || w.Stop() {
		return ex, vd
	}
	// success: ghost updates, wire checks, message emission
	for _, v := range w.Ghost.Apply(vd) {
		w.violate(v)
	}
	w.wireChecks(ex, vd)
	w.storageRoundTrip(ex)
	w.emit(nd, ex, vd)
	w.toConsume = append(w.toConsume, ex.Out)
	return ex, vd
}

func (w *World) foundSince(_ *Exec) []Found {
	var out []Found
	for _, f := range w.Found {
		if f.Event == w.curN {
			out = append(out, f)
		}
	}
	return out
}

func gasRem(ex *Exec) uint64 {
	if ex.Out != nil {
		return ex.Out.GasRemaining
	}
	return 0
}

func stateBytes(st spec.ShardState, addrs ...[]byte) int {
	n := 0
	for _, a := range addrs {
		if acc, ok := st[string(a)]; ok {
			for k, v := range acc.Storage {
				n += len(k) + len(v)
			}
		}
	}
	return n
}

// IsHardDep says whether a failure of this dependency kind must propagate (C17).
func IsHardDep(kind int) bool {
	return kind >= 0 && kind != DepTrieRead && kind != DepPauseLookup
}

var epochGated = map[string]bool{spec.FnNFTAddURI: true, spec.FnNFTUpdateAttrs: true, spec.FnMultiTransfer: true}

func (w *World) checkActivation(nd *Node, fn string, active bool) {
	want := true
	if epochGated[fn] {
		want = nd.Clock.Current >= nd.Cfg.ActivationEpoch
	}
	if want != active {
		w.violate(spec.Violation{Props: spec.P("C18"), Clause: "activation", Detail: fmt.Sprintf("shard %d: %s reports active=%v with last confirmed epoch %d and activation epoch %d", nd.ID, fn, active, nd.Clock.Current, nd.Cfg.ActivationEpoch)})
	}
}

// Rebuild runs the repository's tx-data builder over (function, arguments) with the recorded
// builder method per argument.
func Rebuild(fn string, args [][]byte, ops []string) string {
	b := txDataBuilder.NewBuilder()
	extra := map[string]bool{}
	for i := len(args); i < len(ops); i++ {
		extra[ops[i]] = true
	}
	var kept []byte
	const keptWant = "old@6a756e6b@07"
	if extra["reuse"] {
		// a builder that was used before and cleared; what it produced then is still held by its user
		b.Func("old").Str("junk").Int(7)
		_ = b.ToString()
		kept = b.ToBytes()
		b.Clear()
	}
	// a second builder is in use at the same time (an outer call whose argument another builder makes)
	var finishSecond func() string
	if extra["two"] {
		b2 := txDataBuilder.NewBuilder()
		b2.Func("inner").Str("x")
		finishSecond = func() string {
			b2.Int(5).Str("y")
			if got := b2.ToString(); got != "inner@78@05@79" {
				return fmt.Sprintf("a second builder used at the same time produced %q instead of \"inner@78@05@79\"", got)
			}
			return ""
		}
	}
	b.Func(fn)
	skip := 0
	if extra["helper"] {
		// the builder's own helpers for the leading (token, [nonce,] value) of a transfer or burn
		small := func(a []byte) (int64, bool) {
			if len(a) > 8 || len(a) == 8 && a[0] >= 0x80 || len(a) > 0 && a[0] == 0 {
				return 0, false
			}
			return new(big.Int).SetBytes(a).Int64(), true
		}
		switch {
		case (fn == spec.FnESDTTransfer || fn == spec.FnBurn) && len(args) >= 2:
			if v, ok := small(args[1]); ok {
				if fn == spec.FnBurn {
					b.BurnESDT(string(args[0]), v)
				} else {
					b.TransferESDT(string(args[0]), v)
				}
				skip = 2
			}
		case fn == spec.FnESDTNFTTransfer && len(args) >= 3:
			n, ok1 := small(args[1])
			v, ok2 := small(args[2])
			if ok1 && ok2 && n < 1<<31 {
				b.TransferESDTNFT(string(args[0]), int(n), v)
				skip = 3
			}
		}
	}
	for i, a := range args {
		if i < skip {
			continue
		}
		op := "bytes"
		if i < len(ops) {
			op = ops[i]
		}
		switch op {
		case "int64":
			b.Int64(new(big.Int).SetBytes(a).Int64())
		case "int":
			b.Int(int(new(big.Int).SetBytes(a).Int64()))
		case "bigint":
			b.BigInt(new(big.Int).SetBytes(a))
		case "byte":
			if len(a) == 1 {
				b.Byte(a[0])
			} else {
				b.Bytes(a)
			}
		case "str":
			b.Str(string(a))
		case "setfirst":
			// (first argument only) the data is read while there is no argument yet, then SetLast,
			// which the builder supports on an empty list, supplies the one argument
			if i != 0 {
				b.Bytes(a)
				break
			}
			_ = b.ToString()
			b.SetLast(hex.EncodeToString(a))
		case "setlast":
			// a placeholder is appended, the data is read once, then the last element is set
			b.Bytes([]byte{0xee})
			_ = b.ToString()
			b.SetLast(hex.EncodeToString(a))
			if b.GetLast() != hex.EncodeToString(a) {
				return "GetLast disagrees with SetLast"
			}
		default:
			b.Bytes(a)
		}
	}
	if finishSecond != nil {
		if problem := finishSecond(); problem != "" {
			return problem
		}
	}
	out := b.ToString()
	first := b.ToBytes()
	if string(first) != out {
		return "ToBytes disagrees with ToString"
	}
	if string(b.ToBytes()) != out || string(first) != out {
		return "a second ToBytes changed the result or the bytes returned by the first"
	}
	if kept != nil && string(kept) != keptWant {
		return fmt.Sprintf("the bytes an earlier ToBytes returned (%q) were changed by later use of the builder: %q", keptWant, kept)
	}
	return out
}

// CheckBuilt: a transaction string produced by the repository's tx-data builder must be the
// documented encoding of (function, arguments) and must parse back to them (C12).
func (w *World) CheckBuilt(fn string, args [][]byte, data string) {
	w.Stats.ParserChecks++
	if want := spec.EncodeData(fn, args); want != data {
		w.violate(spec.Violation{Props: spec.P("C12"), Clause: "builder", Detail: fmt.Sprintf("the tx-data builder encoded %s%x as %q, the documented encoding is %q", fn, args, data, want)})
		return
	}
	if strings.Contains(fn, "@") || fn == "" {
		return
	}
	pf, pa, err := realCallParser.ParseData(data)
	// the parsed arguments belong to the caller: it appends to each (the system contract builds
	// "ticker-" from an argument that way) and then reads them all
	for i := range pa {
		_ = append(pa[i], 0x2d, 0x2d)
	}
	if err != nil || pf != fn || !eqArgs(pa, args) {
		w.violate(spec.Violation{Props: spec.P("C12"), Clause: "build-parse", Detail: fmt.Sprintf("%q was built from %s%x and parses to %s%x (err=%v)", data, fn, args, pf, pa, err)})
	}
}

// storageRoundTrip: the storage diff of a successful call, encoded as a storage-update list,
// must survive CreateDataFromStorageUpdate / GetStorageUpdates (C12).
func (w *World) storageRoundTrip(ex *Exec) {
	var ups []*vmcommon.StorageUpdate
	for _, a := range ex.Post.SortedAddrs() {
		post := ex.Post[a]
		pre := ex.Pre.Get(a)
		keys := map[string]bool{}
		for k := range pre.Storage {
			keys[k] = true
		}
		for k := range post.Storage {
			keys[k] = true
		}
		kl := make([]string, 0, len(keys))
		for k := range keys {
			kl = append(kl, k)
		}
		sort.Strings(kl)
		for _, k := range kl {
			if !bytes.Equal(pre.Storage[k], post.Storage[k]) && len(k) > 0 {
				ups = append(ups, &vmcommon.StorageUpdate{Offset: []byte(k), Data: post.Storage[k]})
			}
		}
	}
	if len(ups) == 0 {
		return
	}
	w.Stats.ParserChecks++
	var data string
	var back []*vmcommon.StorageUpdate
	var err error
	var pan string
	func() {
		defer func() {
			if r := recover(); r != nil {
				pan = fmt.Sprint(r)
			}
		}()
		data = storageParser.CreateDataFromStorageUpdate(ups)
		back, err = storageParser.GetStorageUpdates(data)
	}()
	if pan != "" {
		w.violate(spec.Violation{Props: spec.P("C12"), Clause: "parser-totality", Detail: fmt.Sprintf("storage-updates parser panicked on %d updates: %s", len(ups), pan)})
		return
	}
	ok := err == nil && len(back) == len(ups)
	for i := 0; ok && i < len(ups); i++ {
		ok = bytes.Equal(back[i].Offset, ups[i].Offset) && bytes.Equal(back[i].Data, ups[i].Data)
	}
	if !ok {
		w.violate(spec.Violation{Props: spec.P("C12"), Clause: "storage-roundtrip", Detail: fmt.Sprintf("a list of %d storage updates encoded as %q parses back to %d updates (err=%v)", len(ups), data, len(back), err)})
	}
}

// parserTotality: the ESDT-transfer parser must return a result or an error for every call that
// reaches a node, accepted or not (C12).
func (w *World) parserTotality(ex *Exec) {
	switch ex.Func {
	case spec.FnESDTTransfer, spec.FnESDTNFTTransfer, spec.FnMultiTransfer:
	default:
		return
	}
	w.Stats.ParserChecks++
	func() {
		defer func() {
			if r := recover(); r != nil {
				w.violate(spec.Violation{Props: spec.P("C12"), Clause: "parser-totality", Detail: fmt.Sprintf("ParseESDTTransfers panicked on traffic %q (snd %x rcv %x): %v", ex.Msg.Data, ex.Msg.Snd, ex.Msg.Rcv, r)})
			}
		}()
		_, _ = w.parser.ParseESDTTransfers(ex.Msg.Snd, ex.Msg.Rcv, ex.Func, ex.Args)
	}()
}

// wireChecks: every emitted data string must parse with the real parser into what the oracle's
// reading says (C10, C12), and the real ESDT-transfer parser must report what the ledger moved.
func (w *World) wireChecks(ex *Exec, vd *spec.Verdict) {
	for _, t := range ex.Transfers {
		if t.Data == "" {
			continue
		}
		sfn, sargs, serr := spec.ParseData(t.Data)
		rfn, rargs, rerr := realCallParser.ParseData(t.Data)
		for i := range rargs {
			_ = append(rargs[i], 0x2d, 0x2d) // (the caller owns what the parser returned)
		}
		w.Stats.ParserChecks++
		if (serr == nil) != (rerr == nil) {
			w.violate(spec.Violation{Props: spec.P("C10", "C12"), Clause: "wire-parse", Detail: fmt.Sprintf("emitted data %q: call-arguments parser err=%v, documented grammar err=%v", t.Data, rerr, serr)})
			continue
		}
		if serr != nil {
			continue
		}
		if sfn != rfn || !eqArgs(sargs, rargs) {
			w.violate(spec.Violation{Props: spec.P("C10", "C12"), Clause: "wire-parse", Detail: fmt.Sprintf("emitted data %q parses to %s%x, documented grammar gives %s%x", t.Data, rfn, rargs, sfn, sargs)})
		}
	}
	switch ex.Func {
	case spec.FnESDTTransfer, spec.FnESDTNFTTransfer, spec.FnMultiTransfer:
	default:
		return
	}
	if vd.Side == "" || len(vd.Moved) == 0 || vd.Class != "ok" {
		return
	}
	w.Stats.ParserChecks++
	var parsed *vmcommon.ParsedESDTTransfers
	var perr error
	var ppanic string
	func() {
		defer func() {
			if r := recover(); r != nil {
				ppanic = fmt.Sprint(r)
			}
		}()
		parsed, perr = w.parser.ParseESDTTransfers(ex.Msg.Snd, ex.Msg.Rcv, ex.Func, ex.Args)
	}()
	if ppanic != "" {
		w.violate(spec.Violation{Props: spec.P("C12", "C10"), Clause: "parser-panic", Detail: fmt.Sprintf("ParseESDTTransfers panicked on an accepted %s call %x: %s", ex.Func, ex.Args, ppanic)})
		return
	}
	if perr != nil || parsed == nil {
		w.violate(spec.Violation{Props: spec.P("C10"), Clause: "parser-ledger", Detail: fmt.Sprintf("the ledger accepted %s%x (%s side) but ParseESDTTransfers refuses it: %v", ex.Func, ex.Args, vd.Side, perr)})
		return
	}
	if !bytes.Equal(parsed.RcvAddr, vd.MovedTo) {
		w.violate(spec.Violation{Props: spec.P("C10"), Clause: "parser-ledger", Detail: fmt.Sprintf("%s%x (%s side): parser reports receiver %x, the ledger credited %x", ex.Func, ex.Args, vd.Side, parsed.RcvAddr, vd.MovedTo)})
	}
	if len(parsed.ESDTTransfers) != len(vd.Moved) {
		w.violate(spec.Violation{Props: spec.P("C10"), Clause: "parser-ledger", Detail: fmt.Sprintf("%s%x (%s side): parser reports %d tokens, the ledger moved %d", ex.Func, ex.Args, vd.Side, len(parsed.ESDTTransfers), len(vd.Moved))})
		return
	}
	for i, mv := range vd.Moved {
		p := parsed.ESDTTransfers[i]
		if p == nil || !bytes.Equal(p.ESDTTokenName, mv.Token) || p.ESDTTokenNonce != mv.Nonce || p.ESDTValue == nil || p.ESDTValue.Cmp(mv.Amount) != 0 {
			got := "<nil>"
			if p != nil {
				got = fmt.Sprintf("(%q,%d,%v)", p.ESDTTokenName, p.ESDTTokenNonce, p.ESDTValue)
			}
			w.violate(spec.Violation{Props: spec.P("C10"), Clause: "parser-ledger", Detail: fmt.Sprintf("%s%x (%s side): parser reports token %d as %s, the ledger moved %s", ex.Func, ex.Args, vd.Side, i, got, mv)})
		}
	}
	// attached call
	min := 2
	switch ex.Func {
	case spec.FnESDTNFTTransfer:
		min = 4
	case spec.FnMultiTransfer:
		min = 3*len(vd.Moved) + 1
		if vd.Side == "sender" {
			min++
		}
	}
	wantFn, wantArgs := "", [][]byte{}
	if len(ex.Args) > min {
		wantFn = string(ex.Args[min])
		wantArgs = ex.Args[min+1:]
	}
	if parsed.CallFunction != wantFn || !eqArgs(parsed.CallArgs, wantArgs) {
		w.violate(spec.Violation{Props: spec.P("C10"), Clause: "parser-ledger", Detail: fmt.Sprintf("%s%x: parser reports attached call %q%x, the call carries %q%x", ex.Func, ex.Args, parsed.CallFunction, parsed.CallArgs, wantFn, wantArgs)})
	}
}

func eqArgs(a, b [][]byte) bool {
	if len(a) != len(b) {
		return false
	}
	for i := range a {
		if !bytes.Equal(a[i], b[i]) {
			return false
		}
	}
	return true
}

// emit turns the outputs of a successful call into in-flight messages.
func (w *World) emit(nd *Node, ex *Exec, vd *spec.Verdict) {
	m := ex.Msg
	idx := 0
	newID := func() string { idx++; return fmt.Sprintf("%d.%d", w.curN, idx) }
	for i, t := range ex.Transfers {
		kind := vd.EmitKind[i]
		snd := t.Sender
		if len(snd) == 0 || ex.Func == spec.FnCreateRoleTransfer {
			// hand-over message: the caller at the next holder is the old holder (see DESIGN 2.1)
			snd = m.Rcv
		}
		nm := &Msg{ID: newID(), Snd: append([]byte{}, snd...), Rcv: append([]byte{}, t.To...), Data: t.Data, Value: t.Value, Gas: t.Gas,
			GasLocked: t.GasLocked, CallType: vmcommon.CallType(t.CallType), SrcShard: nd.ID, DstShard: ShardOf(t.To, nd.N),
			Carries: vd.EmitCarries[i], OrigCallType: m.CallType}
		fn, _, perr := spec.ParseData(t.Data)
		switch {
		case kind == "cont" && nm.DstShard != nd.ID && nm.DstShard != spec.MetaShard && perr == nil && fn == ex.Func:
			nm.Kind = KindContinuation
			if ex.Func == spec.FnCreateRoleTransfer {
				nm.Tag = "handover:" + string(ex.Args[0])
			}
		case kind == "cont" && ex.Func == spec.FnCreateRoleTransfer && nm.DstShard == nd.ID:
			// same-shard hand-over: the message is an intra-shard result that the next holder's
			// shard executes with the (local) old holder as caller
			nm.Kind = KindIntra
		default:
			nm.Kind = KindTerminal
		}
		if nm.Kind == KindTerminal {
			w.Stats.Terminal++
			if len(nm.Carries) > 0 {
				// a value-carrying message that can never be delivered would break conservation
				w.violate(spec.Violation{Props: spec.P("C01", "C10"), Clause: "undeliverable", Detail: fmt.Sprintf("%s emitted a value-carrying message %q that no shard can execute", ex.Func, t.Data)})
			}
			w.logf("    terminal %s to=%x data=%q gas=%d", nm.ID, nm.Rcv, nm.Data, nm.Gas)
			continue
		}
		w.Pool = append(w.Pool, nm)
		w.logf("    emit %s kind=%s to=%x shard=%d data=%q gas=%d carries=%v", nm.ID, nm.Kind, nm.Rcv, nm.DstShard, nm.Data, nm.Gas, nm.Carries)
	}
	// a transaction whose recipient lives elsewhere continues there with the same call, unless the
	// function emitted its own continuation (contract callers of ESDTTransfer, SetUserName)
	emittedCont := false
	for _, k := range vd.EmitKind {
		if k == "cont" {
			emittedCont = true
		}
	}
	if m.Kind == KindUserTx && !emittedCont {
		ds := ShardOf(m.Rcv, nd.N)
		if ds != nd.ID && ds != spec.MetaShard && !bytes.Equal(m.Rcv, spec.SystemAccount) {
			nm := &Msg{ID: newID(), Kind: KindContinuation, Snd: m.Snd, Rcv: m.Rcv, Data: m.Data, Value: m.Value, Gas: ex.Out.GasRemaining,
				GasLocked: m.GasLocked, CallType: m.CallType, SrcShard: nd.ID, DstShard: ds, Carries: vd.ContCarries, OrigCallType: m.CallType}
			w.Pool = append(w.Pool, nm)
			w.logf("    continue %s to shard %d carries=%v", nm.ID, ds, nm.Carries)
		} else if len(vd.ContCarries) > 0 {
			w.violate(spec.Violation{Props: spec.P("C01"), Clause: "undeliverable", Detail: fmt.Sprintf("%s debited %v for a recipient %x no shard will credit", ex.Func, vd.ContCarries, m.Rcv)})
		}
	} else if len(vd.ContCarries) > 0 {
		w.violate(spec.Violation{Props: spec.P("C01"), Clause: "undeliverable", Detail: fmt.Sprintf("%s (caller %x) debited %v and emitted no message", ex.Func, m.Snd, vd.ContCarries)})
	}
}

// InFlight lists the ghost payloads of all undelivered value-carrying messages.
func (w *World) InFlight() []spec.Carry {
	var out []spec.Carry
	for _, m := range w.Pool {
		if !m.Mint {
			out = append(out, m.Carries...)
		}
	}
	return out
}

// CheckInvariants evaluates the global invariants after an event.
func (w *World) CheckInvariants() {
	for _, v := range spec.CheckWorld(w.States(), w.InFlight(), w.Ghost) {
		w.violate(v)
	}
	w.lastHash = w.Hash()
	w.Stats.StateHashes[w.lastHash] = struct{}{}
}

func callSig(fn, side, class string, m *Msg, pre uint64) uint64 {
	h := uint64(14695981039346656037)
	mix := func(b []byte) {
		for _, c := range b {
			h ^= uint64(c)
			h *= 1099511628211
		}
		h ^= 0xfe
		h *= 1099511628211
	}
	mix([]byte(fn))
	mix([]byte(side))
	mix([]byte(class))
	mix([]byte(m.Data))
	mix(m.Snd)
	mix(m.Rcv)
	mix([]byte(fmt.Sprint(m.Gas, m.CallType, m.ReturnErr, pre)))
	return h
}

// Hash is a canonical hash of the decoded world (FNV-1a over sorted content).
func (w *World) Hash() uint64 {
	h := uint64(14695981039346656037)
	mix := func(b []byte) {
		for _, c := range b {
			h ^= uint64(c)
			h *= 1099511628211
		}
		h ^= 0xff
		h *= 1099511628211
	}
	for _, nd := range w.Nodes {
		for _, a := range nd.Store.SortedAddrs() {
			acc := nd.Store.Accts[a]
			mix([]byte(a))
			mix(acc.Balance.Bytes())
			mix(acc.Owner)
			mix(acc.UserName)
			mix(acc.DevReward.Bytes())
			for _, k := range acc.SortedKeys() {
				mix([]byte(k))
				mix(acc.Storage[k])
			}
		}
	}
	ids := make([]string, 0, len(w.Pool))
	for _, m := range w.Pool {
		ids = append(ids, m.ID+m.Data)
	}
	sort.Strings(ids)
	for _, s := range ids {
		mix([]byte(s))
	}
	return h
}

// Deliver executes an in-flight message; a refused value-carrying continuation produces a refund.
func (w *World) Deliver(id string, fault []int) bool {
	pos := -1
	for i, m := range w.Pool {
		if m.ID == id {
			pos = i
			break
		}
	}
	if pos < 0 {
		return false
	}
	m := w.Pool[pos]
	// control messages to one shard are delivered in order (one metachain -> shard stream)
	if m.Kind == KindControl {
		for _, o := range w.Pool[:pos] {
			if o.Kind == KindControl && o.DstShard == m.DstShard {
				return false
			}
		}
	}
	if w.Cfg.FIFO {
		for _, o := range w.Pool[:pos] {
			if o.SrcShard == m.SrcShard && o.DstShard == m.DstShard && o.Kind != KindControl && m.Kind != KindControl {
				return false
			}
		}
	}
	nd := w.Nodes[m.DstShard]
	// a refund that meets a shard on which its function is (no longer / not yet) active waits
	if m.Kind == KindRefund {
		if fnName, _, err := spec.ParseData(m.Data); err == nil {
			if bf, e := nd.Container.Get(fnName); e != nil || !bf.IsActive() {
				w.Stats.Probes["refund-deferred-inactive"]++
				return false
			}
		}
	}
	w.Pool = append(w.Pool[:pos:pos], w.Pool[pos+1:]...)
	w.Stats.Delivered++
	w.logf("deliver %s kind=%s shard=%d", m.ID, m.Kind, m.DstShard)
	ex, vd := w.Run(m, fault)
	ok := ex.Succeeded() && vd != nil && vd.MustFail == ""
	if ok && vd.Side == "dest" && spec.IsContract(m.Rcv) {
		w.LastCredited = append([]byte{}, m.Rcv...)
	}
	if !ok && ex.FaultHit && (m.Kind == KindControl || m.Tag != "") {
		// a control or hand-over message whose execution was rolled back by an injected dependency
		// failure is processed again later (same place in its stream): the system-contract model
		// assumes its messages are eventually executed
		w.Pool = append(w.Pool[:pos:pos], append([]*Msg{m}, w.Pool[pos:]...)...)
		w.Stats.Probes["control-retried-after-fault"]++
		return true
	}
	if m.Kind == KindRefund && ok {
		w.Stats.Probes["refund-executed"]++
	}
	if m.Tag != "" && len(m.Tag) > 9 && m.Tag[:9] == "handover:" {
		w.handoverDone(m, ok)
	}
	if m.Kind == KindControl && m.Tag != "" {
		w.controlDone(m, ex, ok)
	}
	if !ok && len(m.Carries) > 0 && !m.Mint && m.Kind == KindContinuation {
		w.refund(m, ex)
	} else if !ok && len(m.Carries) > 0 && m.Kind == KindRefund {
		// a lost refund: conservation is broken unless the oracle already said why
		if !ex.FaultHit {
			w.violate(spec.Violation{Props: spec.P("C01", "C02"), Clause: "refund-refused", Detail: fmt.Sprintf("the refund %q to %x was refused: %v %s", m.Data, m.Rcv, ex.Err, ex.Panic)})
		} else {
			// refund lost to an injected fault: the node would retry; keep it in flight
			m.ID = m.ID + "r"
			w.Pool = append(w.Pool, m)
		}
	}
	return true
}

// refund builds what elrond-go emits when a cross-shard ESDT transfer fails at its destination:
// the transfer part of the data (no attached call), addresses swapped, return-after-error set.
func (w *World) refund(m *Msg, ex *Exec) {
	fn, args, err := spec.ParseData(m.Data)
	if err != nil {
		return
	}
	n := 0
	switch fn {
	case spec.FnESDTTransfer:
		n = 2
	case spec.FnESDTNFTTransfer:
		n = 4
	case spec.FnMultiTransfer:
		if len(args) > 0 {
			n = 3*int(new(big.Int).SetBytes(args[0]).Int64()) + 1
		}
	default:
		return
	}
	if n > len(args) || n <= 0 {
		return
	}
	ct := vmcommon.DirectCall
	if m.OrigCallType == vmcommon.AsynchronousCall {
		ct = vmcommon.AsynchronousCallBack
	}
	r := &Msg{ID: m.ID + "R", Kind: KindRefund, Snd: m.Rcv, Rcv: m.Snd, Data: BuildData(fn, args[:n]), Value: big.NewInt(0), Gas: m.Gas,
		GasLocked: m.GasLocked, CallType: ct, ReturnErr: true, SrcShard: m.DstShard, DstShard: ShardOf(m.Snd, w.Cfg.NumShards), Carries: m.Carries}
	if r.DstShard == spec.MetaShard {
		return
	}
	w.Pool = append(w.Pool, r)
	w.Stats.Refunds++
	w.logf("    refund %s to=%x shard=%d data=%q", r.ID, r.Rcv, r.DstShard, r.Data)
}

func hx(b []byte) string { return hex.EncodeToString(b) }
func unhx(s string) []byte {
	b, _ := hex.DecodeString(s)
	return b
}
