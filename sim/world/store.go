// Package world is the simulated environment: per-shard account stores ("disk"), fault-injecting
// codec, epoch clock, payability oracle, shard nodes built from the real factory, the node
// pipeline, the transport and the system-contract model.
package world

import (
	"bytes"
	"errors"
	"fmt"
	"math/big"
	"sort"

	vmcommon "github.com/ElrondNetwork/elrond-vm-common"

	"verifsim/spec"
)

// AccountState is the committed state of one account on one shard (shared with the oracle).
type AccountState = spec.Acct

func newAccountState() *AccountState { return spec.NewAcct() }

// Dependency kinds that can be made to fail (C17) and are counted.
const (
	DepTrieWrite = iota
	DepLoadAccount
	DepSaveAccount
	DepMarshal
	DepUnmarshal
	DepIsPayable
	DepAddToBalance
	DepChangeOwner
	DepClaimRewards
	DepTrieRead // fail-soft by interface design; counted, injected only as "soft" faults
	DepPauseLookup
	NumDepKinds
)

// DepNames are the printable names of the dependency kinds.
var DepNames = [NumDepKinds]string{"trie_write", "load_account", "save_account", "marshal", "unmarshal", "is_payable", "add_to_balance", "change_owner", "claim_rewards", "trie_read", "pause_lookup"}

// ErrInjected is returned by every injected dependency failure.
var ErrInjected = errors.New("injected dependency failure")

// FaultPlan decides which dependency call fails. Kind < 0 disables it.
type FaultPlan struct {
	Kind  int
	K     int // the K-th call (1-based) of that kind fails
	Count [NumDepKinds]int
	Fired bool
	// HitAddr/HitKey: the storage read that was failed (DepTrieRead)
	HitAddr []byte
	HitKey  string
	// Reads counts storage reads per (address, key) while a read fault is planned
	Reads map[string]int
	// Alt selects another manifestation of the same failure: an account load that answers with
	// something that is not a user account (1: an account of another kind, 2: nothing at all, both
	// without an error value), a payability query that fails with "true" next to its error (1)
	Alt int
}

// foreignAccount is an account of a kind the built-in functions cannot use (a validator account).
type foreignAccount struct{ addr []byte }

func (f *foreignAccount) AddressBytes() []byte { return f.addr }
func (f *foreignAccount) IncreaseNonce(uint64) {}
func (f *foreignAccount) GetNonce() uint64     { return 0 }
func (f *foreignAccount) IsInterfaceNil() bool { return f == nil }

// NewFaultPlan returns a plan that never fires.
func NewFaultPlan() *FaultPlan { return &FaultPlan{Kind: -1} }

// Reset clears counters and sets the next fault point.
func (f *FaultPlan) Reset(kind, k int) {
	*f = FaultPlan{Kind: kind, K: k}
	if kind == DepTrieRead {
		f.Reads = map[string]int{}
	}
}

func (f *FaultPlan) hit(kind int) bool {
	f.Count[kind]++
	if f.Kind == kind && f.Count[kind] == f.K {
		f.Fired = true
		return true
	}
	return false
}

type journalEntry struct {
	addr string
	prev *AccountState // nil: account did not exist
}

// Store is one shard's account database. It hands out copy-on-load handles: writes reach the
// committed state only through SaveAccount, so a dropped save or a stale handle loses data.
type Store struct {
	Shard   uint32
	Accts   map[string]*AccountState
	journal []journalEntry
	Faults  *FaultPlan
	// PauseLookupSoft is set by the pipeline for every function except ESDTPause/ESDTUnPause: a load
	// of the system account is then the fail-soft pause lookup, not a must-propagate load.
	PauseLookupSoft bool
	Loads           int
	Saves           int
	// ScratchReads: RetrieveValue hands out a view of one reusable buffer (valid until the next read)
	ScratchReads bool
	// NilTrie: reads of an account without any storage return an error (no data trie), as the node's do
	NilTrie  bool
	scratch  []byte
	lastRead int
}

// NewStore returns an empty store.
func NewStore(shard uint32) *Store {
	return &Store{Shard: shard, Accts: map[string]*AccountState{}, Faults: NewFaultPlan()}
}

// Clone forks the store (journal is not carried over).
func (s *Store) Clone() *Store {
	c := NewStore(s.Shard)
	c.ScratchReads = s.ScratchReads
	c.NilTrie = s.NilTrie
	for k, a := range s.Accts {
		c.Accts[k] = a.Clone()
	}
	return c
}

// Handle is a loaded account: a private view over the state at load time.
type Handle struct {
	store *Store
	addr  []byte
	st    *AccountState // private copy; Storage holds base + dirty writes
	dirty map[string]bool
}

var _ vmcommon.UserAccountHandler = (*Handle)(nil)

// LoadAccount implements vmcommon.AccountsAdapter: a fresh handle, account created when absent.
func (s *Store) LoadAccount(address []byte) (vmcommon.AccountHandler, error) {
	kind := DepLoadAccount
	if s.PauseLookupSoft && bytes.Equal(address, spec.SystemAccount) {
		kind = DepPauseLookup
	}
	if s.Faults.hit(kind) {
		switch s.Faults.Alt {
		case 1:
			return &foreignAccount{addr: append([]byte{}, address...)}, nil
		case 2:
			return nil, nil
		}
		return nil, ErrInjected
	}
	s.Loads++
	return s.load(address), nil
}

func (s *Store) load(address []byte) *Handle {
	a, ok := s.Accts[string(address)]
	var st *AccountState
	if ok {
		st = a.Clone()
	} else {
		st = newAccountState()
	}
	return &Handle{store: s, addr: append([]byte{}, address...), st: st, dirty: map[string]bool{}}
}

// LoadForPipeline loads without touching fault counters (the node pipeline's own loads are not
// dependency calls of the function under test).
func (s *Store) LoadForPipeline(address []byte) *Handle { return s.load(address) }

// GetExistingAccount implements vmcommon.AccountsAdapter.
func (s *Store) GetExistingAccount(address []byte) (vmcommon.AccountHandler, error) {
	if s.Faults.hit(DepLoadAccount) {
		return nil, ErrInjected
	}
	if _, ok := s.Accts[string(address)]; !ok {
		return nil, errors.New("account not found")
	}
	return s.load(address), nil
}

// SaveAccount implements vmcommon.AccountsAdapter: flushes the handle into the journaled state.
func (s *Store) SaveAccount(account vmcommon.AccountHandler) error {
	if s.Faults.hit(DepSaveAccount) {
		return ErrInjected
	}
	h, ok := account.(*Handle)
	if !ok || h == nil {
		return errors.New("SaveAccount: foreign account handle")
	}
	s.Saves++
	s.save(h)
	return nil
}

// SaveForPipeline saves without touching fault counters.
func (s *Store) SaveForPipeline(h *Handle) { s.save(h) }

func (s *Store) save(h *Handle) {
	prev := s.Accts[string(h.addr)]
	s.journal = append(s.journal, journalEntry{addr: string(h.addr), prev: prev})
	var next *AccountState
	if prev != nil {
		next = prev.Clone()
	} else {
		next = newAccountState()
	}
	// only what this handle wrote is flushed (as a data-trie tracker flushes its dirty set)
	for k := range h.dirty {
		v, ok := h.st.Storage[k]
		if !ok || len(v) == 0 {
			delete(next.Storage, k)
		} else {
			next.Storage[k] = v
		}
	}
	next.Nonce = h.st.Nonce
	next.Balance = new(big.Int).Set(h.st.Balance)
	next.Owner = h.st.Owner
	next.UserName = h.st.UserName
	next.DevReward = new(big.Int).Set(h.st.DevReward)
	next.CodeMetadata = h.st.CodeMetadata
	s.Accts[string(h.addr)] = next
}

// RemoveAccount implements vmcommon.AccountsAdapter.
func (s *Store) RemoveAccount(address []byte) error {
	prev := s.Accts[string(address)]
	s.journal = append(s.journal, journalEntry{addr: string(address), prev: prev})
	delete(s.Accts, string(address))
	return nil
}

// Commit implements vmcommon.AccountsAdapter.
func (s *Store) Commit() ([]byte, error) { s.journal = s.journal[:0]; return nil, nil }

// JournalLen implements vmcommon.AccountsAdapter.
func (s *Store) JournalLen() int { return len(s.journal) }

// RevertToSnapshot implements vmcommon.AccountsAdapter.
func (s *Store) RevertToSnapshot(snapshot int) error {
	if snapshot < 0 || snapshot > len(s.journal) {
		return fmt.Errorf("bad snapshot %d", snapshot)
	}
	for i := len(s.journal) - 1; i >= snapshot; i-- {
		e := s.journal[i]
		if e.prev == nil {
			delete(s.Accts, e.addr)
		} else {
			s.Accts[e.addr] = e.prev
		}
	}
	s.journal = s.journal[:snapshot]
	return nil
}

// GetNumCheckpoints implements vmcommon.AccountsAdapter.
func (s *Store) GetNumCheckpoints() uint32 { return 0 }

// GetCode implements vmcommon.AccountsAdapter.
func (s *Store) GetCode(_ []byte) []byte { return nil }

// RootHash implements vmcommon.AccountsAdapter.
func (s *Store) RootHash() ([]byte, error) { return nil, nil }

// RecreateTrie implements vmcommon.AccountsAdapter.
func (s *Store) RecreateTrie(_ []byte) error { return nil }

// IsInterfaceNil implements vmcommon.AccountsAdapter.
func (s *Store) IsInterfaceNil() bool { return s == nil }

// SortedAddrs returns the addresses of all accounts in byte order.
func (s *Store) SortedAddrs() []string {
	out := make([]string, 0, len(s.Accts))
	for k := range s.Accts {
		out = append(out, k)
	}
	sort.Strings(out)
	return out
}

// --- Handle: vmcommon.UserAccountHandler + AccountDataHandler ---

func (h *Handle) GetCodeMetadata() []byte { return h.st.CodeMetadata }
func (h *Handle) GetCodeHash() []byte     { return nil }
func (h *Handle) GetRootHash() []byte     { return nil }
func (h *Handle) AccountDataHandler() vmcommon.AccountDataHandler {
	return h
}
func (h *Handle) AddToBalance(value *big.Int) error {
	if h.store.Faults.hit(DepAddToBalance) {
		return ErrInjected
	}
	n := new(big.Int).Add(h.st.Balance, value)
	if n.Sign() < 0 {
		return errors.New("insufficient funds")
	}
	h.st.Balance = n
	return nil
}
func (h *Handle) GetBalance() *big.Int { return new(big.Int).Set(h.st.Balance) }
func (h *Handle) ClaimDeveloperRewards(sender []byte) (*big.Int, error) {
	if h.store.Faults.hit(DepClaimRewards) {
		return nil, ErrInjected
	}
	if !bytes.Equal(sender, h.st.Owner) {
		return nil, errors.New("operation in account not permitted")
	}
	v := new(big.Int).Set(h.st.DevReward)
	h.st.DevReward = big.NewInt(0)
	return v, nil
}
func (h *Handle) GetDeveloperReward() *big.Int { return new(big.Int).Set(h.st.DevReward) }
func (h *Handle) ChangeOwnerAddress(sender []byte, newOwner []byte) error {
	if h.store.Faults.hit(DepChangeOwner) {
		return ErrInjected
	}
	if !bytes.Equal(sender, h.st.Owner) {
		return errors.New("operation in account not permitted")
	}
	if len(newOwner) != len(h.addr) {
		return errors.New("invalid address length")
	}
	h.st.Owner = append([]byte{}, newOwner...)
	return nil
}
func (h *Handle) SetOwnerAddress(o []byte)    { h.st.Owner = append([]byte{}, o...) }
func (h *Handle) GetOwnerAddress() []byte     { return h.st.Owner }
func (h *Handle) SetUserName(userName []byte) { h.st.UserName = append([]byte{}, userName...) }
func (h *Handle) GetUserName() []byte         { return h.st.UserName }
func (h *Handle) AddressBytes() []byte        { return h.addr }
func (h *Handle) IncreaseNonce(n uint64)      { h.st.Nonce += n }
func (h *Handle) GetNonce() uint64            { return h.st.Nonce }
func (h *Handle) IsInterfaceNil() bool        { return h == nil }

// RetrieveValue implements vmcommon.AccountDataHandler (fail-soft read).
func (h *Handle) RetrieveValue(key []byte) ([]byte, error) {
	if h.store.Faults.Reads != nil {
		h.store.Faults.Reads[string(h.addr)+"\x00"+string(key)]++
	}
	if h.store.Faults.hit(DepTrieRead) {
		h.store.Faults.HitAddr = append([]byte{}, h.addr...)
		h.store.Faults.HitKey = string(key)
		return nil, ErrInjected
	}
	if h.store.NilTrie && len(h.st.Storage) == 0 {
		// an account that has never stored anything has no data trie: the node's account data handler
		// answers reads with an error then (which is why the library's reads are fail-soft)
		return nil, errors.New("trie is nil")
	}
	v := h.st.Storage[string(key)]
	if h.store.ScratchReads && len(v) > 0 && len(v) <= 1<<16 {
		// the bytes handed out are valid until the next read: all reads go through one buffer, which
		// is overwritten first
		if h.store.scratch == nil {
			h.store.scratch = make([]byte, 1<<16)
		}
		for i := 0; i < h.store.lastRead; i++ {
			h.store.scratch[i] = 0xEE
		}
		copy(h.store.scratch, v)
		h.store.lastRead = len(v)
		return h.store.scratch[:len(v):len(v)], nil
	}
	return v, nil
}

// SaveKeyValue implements vmcommon.AccountDataHandler; key and value are copied.
func (h *Handle) SaveKeyValue(key []byte, value []byte) error {
	if h.store.Faults.hit(DepTrieWrite) {
		return ErrInjected
	}
	k := string(key)
	h.dirty[k] = true
	if len(value) == 0 {
		delete(h.st.Storage, k)
	} else {
		h.st.Storage[k] = append([]byte{}, value...)
	}
	return nil
}

// DirtyKeys lists the keys written through this handle (sorted).
func (h *Handle) DirtyKeys() []string {
	out := make([]string, 0, len(h.dirty))
	for k := range h.dirty {
		out = append(out, k)
	}
	sort.Strings(out)
	return out
}
