package world

import (
	"fmt"
	"sort"

	vmcommon "github.com/ElrondNetwork/elrond-vm-common"
	"github.com/ElrondNetwork/elrond-vm-common/builtInFunctions"
)

// BaseCostNames / BuiltInCostNames are the schedule entries the protocol defines.
var BaseCostNames = []string{"StorePerByte", "ReleasePerByte", "DataCopyPerByte", "PersistPerByte", "CompilePerByte", "AoTPreparePerByte"}
var BuiltInCostNames = []string{"ChangeOwnerAddress", "ClaimDeveloperRewards", "SaveUserName", "SaveKeyValue", "ESDTTransfer", "ESDTBurn", "ESDTLocalMint", "ESDTLocalBurn", "ESDTNFTCreate", "ESDTNFTAddQuantity", "ESDTNFTBurn", "ESDTNFTTransfer", "ESDTNFTChangeCreateOwner", "ESDTNFTMultiTransfer", "ESDTNFTAddURI", "ESDTNFTUpdateAttributes"}

// Schedule is the simulator's own (ghost) reading of a gas schedule.
type Schedule struct {
	Base    map[string]uint64
	BuiltIn map[string]uint64
}

// ToMap gives the form the factory consumes.
func (s Schedule) ToMap() map[string]map[string]uint64 {
	b := map[string]uint64{}
	for k, v := range s.Base {
		b[k] = v
	}
	f := map[string]uint64{}
	for k, v := range s.BuiltIn {
		f[k] = v
	}
	return map[string]map[string]uint64{vmcommon.BaseOperationCostString: b, vmcommon.BuiltInCostString: f}
}

// Valid says whether the schedule has every entry and none is zero.
func (s Schedule) Valid() bool {
	for _, n := range BaseCostNames {
		if s.Base[n] == 0 {
			return false
		}
	}
	for _, n := range BuiltInCostNames {
		if s.BuiltIn[n] == 0 {
			return false
		}
	}
	return true
}

// Clone copies a schedule.
func (s Schedule) Clone() Schedule {
	c := Schedule{Base: map[string]uint64{}, BuiltIn: map[string]uint64{}}
	for k, v := range s.Base {
		c.Base[k] = v
	}
	for k, v := range s.BuiltIn {
		c.BuiltIn[k] = v
	}
	return c
}

func (s Schedule) String() string {
	out := ""
	for _, n := range BaseCostNames {
		out += fmt.Sprintf("%s=%d ", n, s.Base[n])
	}
	for _, n := range BuiltInCostNames {
		out += fmt.Sprintf("%s=%d ", n, s.BuiltIn[n])
	}
	return out
}

// NodeCfg is the per-shard factory configuration.
type NodeCfg struct {
	DNS                  []string // DNS addresses (sorted)
	EnableUserNameChange bool
	ActivationEpoch      uint32
	// LateSchedule: construct the factory with an older schedule, announce the one in force through
	// GasScheduleChange before the (first) container is created
	LateSchedule bool
}

type gasFactory interface {
	GasScheduleChange(gasSchedule map[string]map[string]uint64)
	CreateBuiltInFunctionContainer() (vmcommon.BuiltInFunctionContainer, error)
}

// Node is one shard: store + real built-in function container.
type Node struct {
	ID        uint32
	N         uint32
	Store     *Store
	Codec     *Codec
	Clock     *EpochClock
	Pay       *PayableOracle
	Coord     *Coordinator
	Faults    *FaultPlan
	Cfg       NodeCfg
	Sched     Schedule // ghost: the schedule this shard last accepted
	factory   gasFactory
	Container vmcommon.BuiltInFunctionContainer
	Restarts  int
}

// NewNode builds a shard with the real factory.
func NewNode(id, n uint32, cfg NodeCfg, sched Schedule, epoch uint32, payTable map[string]int) (*Node, error) {
	f := NewFaultPlan()
	nd := &Node{ID: id, N: n, Faults: f, Cfg: cfg, Sched: sched.Clone()}
	nd.Store = NewStore(id)
	nd.Store.Faults = f
	nd.Codec = NewCodec(f)
	nd.Clock = &EpochClock{Current: epoch}
	nd.Pay = &PayableOracle{Faults: f, Table: payTable}
	nd.Coord = &Coordinator{Self: id, N: n}
	if err := nd.build(); err != nil {
		return nil, err
	}
	return nd, nil
}

func (nd *Node) build() error {
	dns := map[string]struct{}{}
	for _, d := range nd.Cfg.DNS {
		dns[d] = struct{}{}
	}
	gasMap := nd.Sched.ToMap()
	if nd.Cfg.LateSchedule {
		older := nd.Sched.Clone()
		for k := range older.Base {
			older.Base[k] += 1000
		}
		for k := range older.BuiltIn {
			older.BuiltIn[k] += 500000
		}
		gasMap = older.ToMap()
	}
	args := builtInFunctions.ArgsCreateBuiltInFunctionContainer{
		GasMap:                              gasMap,
		MapDNSAddresses:                     dns,
		EnableUserNameChange:                nd.Cfg.EnableUserNameChange,
		Marshalizer:                         nd.Codec,
		Accounts:                            nd.Store,
		ShardCoordinator:                    nd.Coord,
		EpochNotifier:                       nd.Clock,
		ESDTNFTImprovementV1ActivationEpoch: nd.Cfg.ActivationEpoch,
	}
	fac, err := builtInFunctions.NewBuiltInFunctionsFactory(args)
	if err != nil {
		return fmt.Errorf("factory: %w", err)
	}
	if nd.Cfg.LateSchedule {
		fac.GasScheduleChange(nd.Sched.ToMap())
	}
	cont, err := fac.CreateBuiltInFunctionContainer()
	if err != nil {
		return fmt.Errorf("container: %w", err)
	}
	if err = builtInFunctions.SetPayableHandler(cont, nd.Pay); err != nil {
		return fmt.Errorf("payable handler: %w", err)
	}
	nd.factory = fac
	nd.Container = cont
	return nil
}

// Restart rebuilds the function objects from the factory; store, accepted schedule, epoch survive.
func (nd *Node) Restart() error {
	nd.Clock.DropHandlers()
	nd.Restarts++
	return nd.build()
}

type tamperStub struct{}

func (tamperStub) ProcessBuiltinFunction(_, _ vmcommon.UserAccountHandler, _ *vmcommon.ContractCallInput) (*vmcommon.VMOutput, error) {
	return &vmcommon.VMOutput{}, nil
}
func (tamperStub) SetNewGasConfig(_ *vmcommon.GasCost) {}
func (tamperStub) IsActive() bool                      { return true }
func (tamperStub) IsInterfaceNil() bool                { return false }

// Rebuild asks the SAME factory for a new container after the old container (which its previous
// owner may have modified through the public container API) was scribbled on: a container built by
// the factory must hold exactly the protocol's functions whatever happened to earlier ones (C18).
func (nd *Node) Rebuild() error {
	old := nd.Container
	old.Remove(vmcommon.BuiltInFunctionESDTWipe)
	_ = old.Add("zzPrivateHook", tamperStub{})
	if f, err := old.Get(vmcommon.BuiltInFunctionESDTUnFreeze); err == nil {
		_ = old.Replace(vmcommon.BuiltInFunctionESDTFreeze, f)
	}
	nd.Clock.DropHandlers()
	nd.Restarts++
	cont, err := nd.factory.CreateBuiltInFunctionContainer()
	if err != nil {
		return fmt.Errorf("container: %w", err)
	}
	if err = builtInFunctions.SetPayableHandler(cont, nd.Pay); err != nil {
		return fmt.Errorf("payable handler: %w", err)
	}
	nd.Container = cont
	return nil
}

// ChangeSchedule offers a schedule to the factory; the ghost is updated only if it is valid.
func (nd *Node) ChangeSchedule(s Schedule) bool {
	nd.factory.GasScheduleChange(s.ToMap())
	if s.Valid() {
		nd.Sched = s.Clone()
		return true
	}
	return false
}

// ChangeScheduleRaw offers a raw map (possibly with missing sub-maps).
func (nd *Node) ChangeScheduleRaw(m map[string]map[string]uint64) {
	nd.factory.GasScheduleChange(m)
}

// ContainerNames lists the registered names (sorted).
func (nd *Node) ContainerNames() []string {
	keys := nd.Container.Keys()
	out := make([]string, 0, len(keys))
	for k := range keys {
		out = append(out, k)
	}
	sort.Strings(out)
	return out
}

// CloneFor forks the node onto a cloned store: a fresh container with the same configuration.
func (nd *Node) CloneFor() (*Node, error) {
	c, err := NewNode(nd.ID, nd.N, nd.Cfg, nd.Sched, nd.Clock.Current, nd.Pay.Table)
	if err != nil {
		return nil, err
	}
	st := nd.Store.Clone()
	st.Faults = c.Faults
	c.Store.Accts = st.Accts
	return c, nil
}
