package world

import (
	"fmt"
	"math/big"
	"reflect"
	"sort"
	"verifsim/spec"

	vmcommon "github.com/ElrondNetwork/elrond-vm-common"
	"github.com/ElrondNetwork/elrond-vm-common/builtInFunctions"
)

// BaseCostNames / BuiltInCostNames are the schedule entries the protocol defines.
var BaseCostNames = []string{"StorePerByte", "ReleasePerByte", "DataCopyPerByte", "PersistPerByte", "CompilePerByte", "AoTPreparePerByte"}
var BuiltInCostNames = []string{"ChangeOwnerAddress", "ClaimDeveloperRewards", "SaveUserName", "SaveKeyValue", "ESDTTransfer", "ESDTBurn", "ESDTLocalMint", "ESDTLocalBurn", "ESDTNFTCreate", "ESDTNFTAddQuantity", "ESDTNFTBurn", "ESDTNFTTransfer", "ESDTNFTChangeCreateOwner", "ESDTNFTMultiTransfer", "ESDTNFTAddURI", "ESDTNFTUpdateAttributes"}

// Schedule is the simulator's own (ghost) reading of a gas schedule.
type Schedule struct {
	Base    map[string]uint64
	BuiltIn map[string]uint64
}

// ToMap gives the form the factory consumes.
func (s Schedule) ToMap() map[string]map[string]uint64 {
	b := map[string]uint64{}
	for k, v := range s.Base {
		b[k] = v
	}
	f := map[string]uint64{}
	for k, v := range s.BuiltIn {
		f[k] = v
	}
	return map[string]map[string]uint64{vmcommon.BaseOperationCostString: b, vmcommon.BuiltInCostString: f}
}

// Valid says whether the schedule has every entry and none is zero.
func (s Schedule) Valid() bool {
	for _, n := range BaseCostNames {
		if s.Base[n] == 0 {
			return false
		}
	}
	for _, n := range BuiltInCostNames {
		if s.BuiltIn[n] == 0 {
			return false
		}
	}
	return true
}

// Clone copies a schedule.
func (s Schedule) Clone() Schedule {
	c := Schedule{Base: map[string]uint64{}, BuiltIn: map[string]uint64{}}
	for k, v := range s.Base {
		c.Base[k] = v
	}
	for k, v := range s.BuiltIn {
		c.BuiltIn[k] = v
	}
	return c
}

func (s Schedule) String() string {
	out := ""
	for _, n := range BaseCostNames {
		out += fmt.Sprintf("%s=%d ", n, s.Base[n])
	}
	for _, n := range BuiltInCostNames {
		out += fmt.Sprintf("%s=%d ", n, s.BuiltIn[n])
	}
	return out
}

// NodeCfg is the per-shard factory configuration.
type NodeCfg struct {
	DNS                  []string // DNS addresses (sorted)
	EnableUserNameChange bool
	ActivationEpoch      uint32
	// LateSchedule: construct the factory with an older schedule, announce the one in force through
	// GasScheduleChange before the (first) container is created
	LateSchedule bool
	// DNSIntruder: when set, the host goes on using the DNS map it passed to the factory: after every
	// build it adds this never-configured address to that map object and drops a configured one
	DNSIntruder string
	// TypedNilAccounts: absent accounts are passed as account handles whose pointer is nil
	TypedNilAccounts bool
}

type gasFactory interface {
	GasScheduleChange(gasSchedule map[string]map[string]uint64)
	CreateBuiltInFunctionContainer() (vmcommon.BuiltInFunctionContainer, error)
}

// Node is one shard: store + real built-in function container.
type Node struct {
	ID        uint32
	N         uint32
	Store     *Store
	Codec     *Codec
	Clock     *EpochClock
	Pay       *PayableOracle
	Coord     *Coordinator
	Faults    *FaultPlan
	Cfg       NodeCfg
	Sched     Schedule // ghost: the schedule this shard last accepted
	factory   gasFactory
	Container vmcommon.BuiltInFunctionContainer
	Restarts  int
	// FaultAlt: manifestation of the next injected fault (FaultPlan.Alt); set by Run around Execute
	FaultAlt int
	// Direct (ghost): function name -> schedule told to that function object alone through its own
	// SetNewGasConfig since the last accepted factory-wide change (which overrides it again)
	Direct map[string]Schedule
	// scratchCost: the one GasCost object the host reuses for direct announcements and overwrites afterwards
	scratchCost *vmcommon.GasCost
	// BuildProblem: what the check made right after building, before any payability handler is
	// installed, found (reported by the registry check)
	BuildProblem string
	// HostRemoved: functions the host took out of the live container through its public API
	HostRemoved map[string]bool
	// dnsArg: the very map object that was passed to the factory (the host goes on using it)
	dnsArg map[string]struct{}
}

// fillCost writes a schedule (or, with s == nil, recognisable garbage) into a GasCost object.
func fillCost(g *vmcommon.GasCost, s *Schedule) {
	fill := func(v reflect.Value, m map[string]uint64, junk uint64) {
		for i := 0; i < v.NumField(); i++ {
			if s == nil {
				v.Field(i).SetUint(junk + uint64(i))
			} else {
				v.Field(i).SetUint(m[v.Type().Field(i).Name])
			}
		}
	}
	var base, builtIn map[string]uint64
	if s != nil {
		base, builtIn = s.Base, s.BuiltIn
	}
	fill(reflect.ValueOf(&g.BaseOperationCost).Elem(), base, 7_000_000_001)
	fill(reflect.ValueOf(&g.BuiltInCost).Elem(), builtIn, 9_000_000_001)
}

// RepriceDirect tells the named function objects a schedule through their own SetNewGasConfig, the
// way a host that holds the objects may; the GasCost object is the host's, reused from call to call
// and overwritten right after the announcement (the functions must have taken copies). A nil
// announcement is offered as well: it must change nothing.
func (nd *Node) RepriceDirect(names []string, s Schedule) int {
	if nd.scratchCost == nil {
		nd.scratchCost = &vmcommon.GasCost{}
	}
	if nd.Direct == nil {
		nd.Direct = map[string]Schedule{}
	}
	n := 0
	for _, name := range names {
		f, err := nd.Container.Get(name)
		if err != nil {
			continue
		}
		fillCost(nd.scratchCost, &s)
		f.SetNewGasConfig(nd.scratchCost)
		fillCost(nd.scratchCost, nil)
		f.SetNewGasConfig(nil)
		nd.Direct[name] = s.Clone()
		n++
	}
	return n
}

// TamperDNSArg: the host goes on using the map it configured the factory with (adds an address that
// was never configured, drops a configured one). Functions built so far keep the configured set.
func (nd *Node) TamperDNSArg(intruder []byte) {
	if nd.dnsArg == nil {
		return
	}
	nd.dnsArg[string(intruder)] = struct{}{}
	for _, d := range nd.Cfg.DNS {
		delete(nd.dnsArg, d)
		break
	}
}

// restoreDNSArg puts the configured set back (before the factory is asked for another container:
// the factory itself keeps the host's map, which is existing behaviour and not judged).
func (nd *Node) restoreDNSArg() {
	if nd.dnsArg == nil {
		return
	}
	for k := range nd.dnsArg {
		delete(nd.dnsArg, k)
	}
	for _, d := range nd.Cfg.DNS {
		nd.dnsArg[d] = struct{}{}
	}
}

// NewNode builds a shard with the real factory.
func NewNode(id, n uint32, cfg NodeCfg, sched Schedule, epoch uint32, payTable map[string]int) (*Node, error) {
	f := NewFaultPlan()
	nd := &Node{ID: id, N: n, Faults: f, Cfg: cfg, Sched: sched.Clone()}
	nd.Store = NewStore(id)
	nd.Store.Faults = f
	nd.Codec = NewCodec(f)
	nd.Clock = &EpochClock{Current: epoch}
	nd.Pay = &PayableOracle{Faults: f, Table: payTable}
	nd.Coord = &Coordinator{Self: id, N: n}
	if err := nd.build(); err != nil {
		return nil, err
	}
	return nd, nil
}

func (nd *Node) build() error {
	dns := map[string]struct{}{}
	for _, d := range nd.Cfg.DNS {
		dns[d] = struct{}{}
	}
	gasMap := nd.Sched.ToMap()
	if nd.Cfg.LateSchedule {
		older := nd.Sched.Clone()
		for k := range older.Base {
			older.Base[k] += 1000
		}
		for k := range older.BuiltIn {
			older.BuiltIn[k] += 500000
		}
		gasMap = older.ToMap()
	}
	args := builtInFunctions.ArgsCreateBuiltInFunctionContainer{
		GasMap:                              gasMap,
		MapDNSAddresses:                     dns,
		EnableUserNameChange:                nd.Cfg.EnableUserNameChange,
		Marshalizer:                         nd.Codec,
		Accounts:                            nd.Store,
		ShardCoordinator:                    nd.Coord,
		EpochNotifier:                       nd.Clock,
		ESDTNFTImprovementV1ActivationEpoch: nd.Cfg.ActivationEpoch,
	}
	fac, err := builtInFunctions.NewBuiltInFunctionsFactory(args)
	if err != nil {
		return fmt.Errorf("factory: %w", err)
	}
	if nd.Cfg.LateSchedule {
		fac.GasScheduleChange(nd.Sched.ToMap())
	}
	cont, err := fac.CreateBuiltInFunctionContainer()
	if err != nil {
		return fmt.Errorf("container: %w", err)
	}
	nd.BuildProblem = probeNoHandler(cont, nd.N)
	// the host first installs a placeholder and then the real handler: the last one installed answers
	if err = builtInFunctions.SetPayableHandler(cont, allPayable{}); err != nil {
		return fmt.Errorf("payable handler: %w", err)
	}
	if err = builtInFunctions.SetPayableHandler(cont, nd.Pay); err != nil {
		return fmt.Errorf("payable handler: %w", err)
	}
	nd.factory = fac
	nd.Container = cont
	nd.Direct = nil
	nd.HostRemoved = nil
	nd.dnsArg = dns
	if nd.Cfg.DNSIntruder != "" {
		nd.TamperDNSArg([]byte(nd.Cfg.DNSIntruder))
	}
	return nil
}

// Restart rebuilds the function objects from the factory; store, accepted schedule, epoch survive.
func (nd *Node) Restart() error {
	nd.Clock.DropHandlers()
	nd.Restarts++
	return nd.build()
}

// allPayable is a placeholder payability handler (everything is payable).
type allPayable struct{}

func (allPayable) IsPayable([]byte) (bool, error) { return true, nil }
func (allPayable) IsInterfaceNil() bool           { return false }

type tamperStub struct{}

func (tamperStub) ProcessBuiltinFunction(_, _ vmcommon.UserAccountHandler, _ *vmcommon.ContractCallInput) (*vmcommon.VMOutput, error) {
	return &vmcommon.VMOutput{}, nil
}
func (tamperStub) SetNewGasConfig(_ *vmcommon.GasCost) {}
func (tamperStub) IsActive() bool                      { return true }
func (tamperStub) IsInterfaceNil() bool                { return false }

// Rebuild asks the SAME factory for a new container after the old container (which its previous
// owner may have modified through the public container API) was scribbled on: a container built by
// the factory must hold exactly the protocol's functions whatever happened to earlier ones (C18).
func (nd *Node) Rebuild() error {
	old := nd.Container
	old.Remove(vmcommon.BuiltInFunctionESDTWipe)
	_ = old.Add("zzPrivateHook", tamperStub{})
	if f, err := old.Get(vmcommon.BuiltInFunctionESDTUnFreeze); err == nil {
		_ = old.Replace(vmcommon.BuiltInFunctionESDTFreeze, f)
	}
	nd.Clock.DropHandlers()
	nd.Restarts++
	nd.restoreDNSArg()
	nd.Direct = nil
	nd.HostRemoved = nil
	cont, err := nd.factory.CreateBuiltInFunctionContainer()
	if err != nil {
		return fmt.Errorf("container: %w", err)
	}
	if err = builtInFunctions.SetPayableHandler(cont, nd.Pay); err != nil {
		return fmt.Errorf("payable handler: %w", err)
	}
	nd.Container = cont
	if nd.Cfg.DNSIntruder != "" {
		nd.TamperDNSArg([]byte(nd.Cfg.DNSIntruder))
	}
	return nil
}

// ChangeSchedule offers a schedule to the factory; the ghost is updated only if it is valid.
func (nd *Node) ChangeSchedule(s Schedule) bool {
	m := s.ToMap()
	nd.factory.GasScheduleChange(m)
	// the map is the host's: it is emptied right after the announcement
	for _, sub := range m {
		for k := range sub {
			delete(sub, k)
		}
	}
	if s.Valid() {
		nd.Sched = s.Clone()
		nd.Direct = nil // an accepted schedule reaches every function of the container
		return true
	}
	return false
}

// ChangeScheduleRaw offers a raw map (possibly with missing sub-maps).
func (nd *Node) ChangeScheduleRaw(m map[string]map[string]uint64) {
	nd.factory.GasScheduleChange(m)
}

// ContainerNames lists the registered names (sorted).
func (nd *Node) ContainerNames() []string {
	// the returned key set belongs to the caller: it is emptied here, and a second call must still
	// list what the container holds
	first := nd.Container.Keys()
	for k := range first {
		delete(first, k)
	}
	first["zzNotAFunction"] = struct{}{}
	keys := nd.Container.Keys()
	out := make([]string, 0, len(keys))
	for k := range keys {
		out = append(out, k)
	}
	sort.Strings(out)
	return out
}

// CloneFor forks the node onto a cloned store: a fresh container with the same configuration.
func (nd *Node) CloneFor() (*Node, error) {
	c, err := NewNode(nd.ID, nd.N, nd.Cfg, nd.Sched, nd.Clock.Current, nd.Pay.Table)
	if err != nil {
		return nil, err
	}
	st := nd.Store.Clone()
	st.Faults = c.Faults
	c.Store.Accts = st.Accts
	return c, nil
}

// HostRemove: the host takes a function out of the live container (public container API). The
// other functions stay what they are, and go on following schedule changes.
func (nd *Node) HostRemove(name string) {
	nd.Container.Remove(name)
	if nd.HostRemoved == nil {
		nd.HostRemoved = map[string]bool{}
	}
	nd.HostRemoved[name] = true
	delete(nd.Direct, name)
}

// probeNoHandler runs, on a scratch store, a plain fungible transfer from a user to a contract in
// the same shard through a container on which no payability handler has been installed yet. Nothing
// has said that the contract is payable, so it must not be credited (C09).
func probeNoHandler(cont vmcommon.BuiltInFunctionContainer, n uint32) string {
	st := NewStore(0)
	user := UserAddr(50, 0)
	contract := ContractAddr(50, 0)
	tok := []byte("PRB-000000")
	ua := spec.NewAcct()
	ua.Storage[spec.TokenKey(tok, 0)] = spec.EncodeToken(&spec.Token{Value: big.NewInt(100)})
	st.Accts[string(user)] = ua
	ca := spec.NewAcct()
	ca.CodeMetadata = []byte{0, 0}
	st.Accts[string(contract)] = ca
	bf, err := cont.Get(spec.FnESDTTransfer)
	if err != nil {
		return ""
	}
	in := &vmcommon.ContractCallInput{
		VMInput:       vmcommon.VMInput{CallerAddr: user, Arguments: [][]byte{tok, {7}}, CallValue: big.NewInt(0), GasProvided: 1 << 40},
		RecipientAddr: contract, Function: spec.FnESDTTransfer,
	}
	problem := ""
	func() {
		defer func() { _ = recover() }()
		out, err := bf.ProcessBuiltinFunction(st.LoadForPipeline(user), st.LoadForPipeline(contract), in)
		if err == nil && out != nil && out.ReturnCode == vmcommon.Ok {
			problem = "before any payability handler was installed, a plain ESDTTransfer from a user credited a contract (nothing said it is payable)"
		}
	}()
	return problem
}

// HostReplace: the host puts a fresh instance of a function, built by another factory with the same
// configuration and the schedule in force, under the same name into the live container (public
// container API). From then on that instance is the function of that name: it is priced by the
// schedule it was built with until the next accepted change, which must reach it like any other.
func (nd *Node) HostReplace(name string) error {
	dns := map[string]struct{}{}
	for _, d := range nd.Cfg.DNS {
		dns[d] = struct{}{}
	}
	fac, err := builtInFunctions.NewBuiltInFunctionsFactory(builtInFunctions.ArgsCreateBuiltInFunctionContainer{
		GasMap: nd.Sched.ToMap(), MapDNSAddresses: dns, EnableUserNameChange: nd.Cfg.EnableUserNameChange, Marshalizer: nd.Codec,
		Accounts: nd.Store, ShardCoordinator: nd.Coord, EpochNotifier: nd.Clock, ESDTNFTImprovementV1ActivationEpoch: nd.Cfg.ActivationEpoch})
	if err != nil {
		return err
	}
	other, err := fac.CreateBuiltInFunctionContainer()
	if err != nil {
		return err
	}
	if err = builtInFunctions.SetPayableHandler(other, nd.Pay); err != nil {
		return err
	}
	obj, err := other.Get(name)
	if err != nil {
		return err
	}
	if err = nd.Container.Replace(name, obj); err != nil {
		return err
	}
	delete(nd.Direct, name)
	return nil
}
