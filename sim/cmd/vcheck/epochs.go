package main

import (
	"verifsim/world"
)

// enumerateEpochScripts is the bounded enumeration half of C18: every script of confirmed epochs up
// to length 4 over a small domain plus the 32-bit boundaries, for every activation epoch of the
// domain and every starting epoch, with a node restart inserted at every position of a sample of
// them. After each notification (and restart) Apply compares IsActive of all 23 registered
// functions with the model (CheckRegistry). Returns the number of scripts and notifications played
// and the first violating run, if any.
func enumerateEpochScripts() (scripts int, notifications int, bad *RunResult) {
	dom := []uint32{0, 1, 2, 3, ^uint32(0) - 1, ^uint32(0)}
	acts := []uint32{0, 1, 2, 3, ^uint32(0)}
	for _, act := range acts {
		for _, start := range []uint32{0, act} {
			var rec func(prefix []uint32)
			rec = func(prefix []uint32) {
				if bad != nil {
					return
				}
				if len(prefix) > 0 {
					for restartAt := -1; restartAt < len(prefix); restartAt++ {
						if restartAt >= 0 && (len(prefix)+int(prefix[0]))%3 != 0 {
							continue // restarts in a third of the scripts
						}
						cfg := world.Config{CfgSeed: 1, SchedSeed: 1, NumShards: 1, NumUsers: 2, NumContracts: 1, NumTokens: 2, ActivationEpoch: act, StartEpoch: start, NumDNS: []int{-1, 1, 2}[scripts%3]}
						var evs []world.Event
						for i, e := range prefix {
							// timestamps: growing, falling or constant, by script
							ts := int64(1000 + 100*i)
							switch (len(prefix) + int(e%7)) % 3 {
							case 1:
								ts = int64(1000 - 100*i)
							case 2:
								ts = 0
							}
							evs = append(evs, world.Event{N: len(evs), K: "epoch", Shard: 0, Epoch: e, PSeed: ts})
							if i == restartAt {
								evs = append(evs, world.Event{N: len(evs), K: "restart", Shard: 0})
							}
						}
						w, err := replayTrace(cfg, evs, false)
						scripts++
						notifications += len(prefix)
						if err != nil {
							continue
						}
						if len(w.Found) > 0 {
							bad = &RunResult{Seed: -1, Cfg: cfg, Found: toFound(w.Found), Trace: evs}
							return
						}
					}
				}
				if len(prefix) == 4 {
					return
				}
				for _, e := range dom {
					rec(append(append([]uint32{}, prefix...), e))
				}
			}
			rec(nil)
		}
	}
	return
}
