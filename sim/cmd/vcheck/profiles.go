package main

import (
	"verifsim/gen"
)

// PropSpec describes how one property is checked by the world engine.
type PropSpec struct {
	ID      string
	Level   string
	Profile gen.Profile
	Steps   [2]int // min,max events per run
	QuickN  int    // runs in the quick tier
	ThorN   int    // runs in the thorough tier
	Rule    string
	Assume  []string
	MustHit []string // probes / outcome classes a thorough run must have reached (coverage holes exit 2)
	Faults  string   // which fault kinds this check injects (documentation in evidence)
	Shards1 bool     // allow single-shard worlds
}

var commonAssumptions = []string{
	"stub node pipeline: caller's account present iff it lives on the executing shard; recipient likewise; same handle when equal; rollback on error; save on success",
	"stub transport: continuation caller = OutputTransfer.SenderAddress, except the create-role hand-over message whose caller is the old holder",
	"refund of a refused cross-shard transfer = transfer part of the data, addresses swapped, ReturnCallAfterError, callback type iff the original was an asynchronous call",
	"system-contract model: roles only for issued tokens, never re-sets a held role, one create-role holder per token, no second hand-over of a token while one is in flight, control messages to one shard in FIFO order",
	"contracts that are not payable send cross-shard only through asynchronous calls (otherwise C09 forbids the refund C01 demands)",
	"the per-shard system account is never a transfer destination; CallValue is never nil",
	"issued token identifiers are well-formed (TICKER-6hex, prefix-free); argument identifiers are arbitrary bytes",
	"attached contract calls are recorded, not executed (no VM in this repository)",
	"real code: builtInFunctions, parsers, txDataBuilder, container, atomic, check, data/esdt (production protobuf codec); stubs: account store, coordinator, epoch notifier, payability table, transport, system contract",
}

func base() gen.Profile { return gen.Base() }

func props() map[string]*PropSpec {
	m := map[string]*PropSpec{}
	add := func(p *PropSpec) { m[p.ID] = p }
	add(&PropSpec{ID: "C01", Level: "exploration", Steps: [2]int{40, 160}, QuickN: 24000, ThorN: 1200000,
		Profile: base().With(map[string]float64{"tx:transfer": 20, "tx:nft": 22, "tx:multi": 28, "tx:create": 10, "tx:mint": 2, "tx:skv": 0.5, "tx:owner": 0.3, "tx:claim": 0.3, "tx:username": 0.3,
			"tx:adversarial": 2, "ev:deliver": 36, "sc:freeze": 4, "sc:pause": 2, "p:adv-token": 0.12, "p:fault": 0.03}),
		Rule:    "seeded multi-shard histories of transfers, deliveries and refunds; a case is one oracle-judged call; distinct = distinct (function, side, outcome class, input, pre-state hash); non-trivial = the call reached real function code (parsed, registered, active)",
		MustHit: []string{"ESDTTransfer/snd/ok", "ESDTTransfer/dst/ok", "ESDTNFTTransfer/snd/ok", "ESDTNFTTransfer/dst/ok", "MultiESDTNFTTransfer/snd/ok", "MultiESDTNFTTransfer/dst/ok", "refund-executed"},
		Faults:  "reorder/delay, refusal+refund (frozen/paused/non-payable at delivery), stale per-shard control state, dependency failure+rollback, node restart"})
	add(&PropSpec{ID: "C02", Level: "exploration", Steps: [2]int{40, 140}, QuickN: 24000, ThorN: 1200000,
		Profile: base().With(map[string]float64{"tx:mint": 14, "tx:lburn": 14, "tx:burn": 10, "tx:create": 14, "tx:addqty": 12, "tx:nftburn": 12, "sc:freeze": 6, "sc:wipe": 6, "sc:unfreeze": 2,
			"p:adv-amount": 0.45, "tx:skv": 0.5, "tx:adversarial": 2}),
		Rule:    "seeded histories heavy in mint/burn/create/add-quantity/NFT-burn/wipe with amounts drawn relative to the current holding (0, 1, holding-1, holding, holding+1, 2^64-1, 2^64, 100/101-byte values); case/distinct as for C01",
		MustHit: []string{"ESDTLocalMint/snd/ok", "ESDTLocalBurn/snd/ok", "ESDTBurn/snd/ok", "ESDTNFTCreate/snd/ok", "ESDTNFTAddQuantity/snd/ok", "ESDTNFTBurn/snd/ok", "ESDTWipe/dst/ok", "ESDTLocalBurn/snd/err-required", "ESDTNFTBurn/snd/err-required"},
		Faults:  "reorder/delay of control messages, dependency failure+rollback, node restart"})
	add(&PropSpec{ID: "C03", Level: "exploration", Steps: [2]int{40, 140}, QuickN: 24000, ThorN: 1200000,
		Profile: base().With(map[string]float64{"tx:forged": 16, "tx:mint": 8, "tx:lburn": 8, "tx:create": 10, "tx:addqty": 8, "tx:nftburn": 8, "tx:adduri": 8, "tx:updattr": 8, "tx:owner": 8, "tx:claim": 8, "tx:username": 8,
			"sc:setrole": 14, "sc:unsetrole": 8, "sc:handover": 6, "sc:forge-control": 5, "tx:transfer": 3, "tx:nft": 3, "tx:multi": 3}),
		Rule:    "seeded histories in which every role-gated function is called by holders of arbitrary role subsets (incl. all-but-the-required one and the role for another token), control functions by users/contracts/DNS, owner/DNS functions by owners, ex-owners and strangers; case/distinct as for C01",
		MustHit: []string{"ESDTLocalMint/snd/err-required", "ESDTNFTCreate/snd/err-required", "ESDTFreeze/snd/err-required", "ESDTSetRole/snd/err-required", "ChangeOwnerAddress/snd/err-required", "SetUserName/snd/err-required", "ESDTNFTCreateRoleTransfer/snd/err-required"},
		Faults:  "reorder/delay of role set/unset/hand-over control messages relative to the operations they authorise, node restart"})
	add(&PropSpec{ID: "C04", Level: "exploration", Steps: [2]int{40, 160}, QuickN: 24000, ThorN: 1200000,
		Profile: base().With(map[string]float64{"sc:freeze": 12, "sc:unfreeze": 7, "sc:pause": 7, "sc:unpause": 6, "sc:wipe": 4, "tx:transfer": 14, "tx:nft": 14, "tx:multi": 16, "tx:mint": 8, "tx:lburn": 6, "tx:burn": 4,
			"tx:create": 8, "tx:addqty": 6, "tx:nftburn": 6, "tx:adduri": 4, "tx:updattr": 4, "ev:sc": 18, "tx:skv": 0.3}),
		Rule:    "seeded histories interleaving freeze/unfreeze/pause/unpause/wipe control messages (per shard, independently delayed) with every balance-changing function on both sides; case/distinct as for C01",
		MustHit: []string{"ESDTFreeze/dst/ok", "ESDTUnFreeze/dst/ok", "ESDTPause/dst/ok", "ESDTUnPause/dst/ok", "ESDTTransfer/snd/err-required", "ESDTTransfer/dst/err-required", "refund-executed"},
		Faults:  "stale per-shard pause/freeze state (control messages delayed independently per shard), refusal+refund, reorder/delay"})
	add(&PropSpec{ID: "C05", Level: "exploration", Steps: [2]int{30, 120}, QuickN: 24000, ThorN: 1200000,
		Profile: base().With(map[string]float64{"tx:skv": 30, "p:adv-token": 0.2, "tx:adversarial": 8}),
		Rule:    "seeded histories; SaveKeyValue with keys of every prefix relation to ELROND incl. live token/role/counter keys, contract callers, foreign recipients; the exact changed-set (frame) check runs on every call of every history; case/distinct as for C01",
		MustHit: []string{"SaveKeyValue/snd/ok", "SaveKeyValue/snd/err-required"},
		Faults:  "reorder/delay, dependency failure+rollback"})
	add(&PropSpec{ID: "C06", Level: "exploration", Steps: [2]int{30, 120}, QuickN: 24000, ThorN: 1200000,
		Profile: base().With(map[string]float64{"p:adv-gas": 0.5, "probe:gas": 0.12, "tx:skv": 12, "tx:claim": 5, "tx:owner": 5, "tx:username": 5, "ev:sched": 3}),
		Rule:    "seeded histories with adversarial gas (0, charge-1, charge, charge+1, 2^64-1) and gas-sweep forks: a sampled call is re-executed from a snapshot with every value of the gas pool around the charge the oracle computed; both execution sides; per-run random schedules",
		MustHit: []string{"gas-sweep-calls", "SaveKeyValue/snd/ok"},
		Faults:  "gas-schedule changes (accepted and rejected), gas sweep on snapshots"})
	add(&PropSpec{ID: "C07", Level: "exploration", Steps: [2]int{50, 180}, QuickN: 24000, ThorN: 1200000,
		Profile: base().With(map[string]float64{"tx:create": 30, "sc:handover": 14, "ev:redeliver": 6, "tx:nftburn": 6, "tx:nft": 8, "tx:multi": 4, "sc:setrole": 10, "ev:sc": 16, "tx:transfer": 2, "tx:skv": 0.3}),
		Rule:    "seeded histories of create / burn latest / transfer away / hand over (same shard, cross shard, message delayed behind other traffic, message redelivered later) / create again, several tokens per creator; case/distinct as for C01",
		MustHit: []string{"ESDTNFTCreate/snd/ok", "handover-same-shard", "handover-cross-shard", "handover-redelivered"},
		Faults:  "delay of the hand-over message, duplicate delivery of the hand-over message, node restart, dependency failure+rollback"})
	add(&PropSpec{ID: "C08", Level: "exploration", Steps: [2]int{40, 160}, QuickN: 24000, ThorN: 1200000,
		Profile: base().With(map[string]float64{"tx:create": 22, "tx:nft": 24, "tx:multi": 20, "tx:adduri": 8, "tx:updattr": 8, "tx:transfer": 2, "sc:setrole": 10}),
		Rule:    "seeded histories: creates with empty/large fields, 0..n URIs, boundary royalties; chains of single/multi, same-/cross-shard hops; AddURI/UpdateAttributes between hops; transfers into accounts holding the same nonce with equal/different hash; production protobuf codec end to end",
		MustHit: []string{"ESDTNFTCreate/snd/ok", "ESDTNFTTransfer/dst/ok", "MultiESDTNFTTransfer/dst/ok", "ESDTNFTAddURI/snd/ok", "ESDTNFTUpdateAttributes/snd/ok"},
		Faults:  "reorder/delay, refusal+refund, node restart"})
	add(&PropSpec{ID: "C09", Level: "exploration", Steps: [2]int{40, 140}, QuickN: 24000, ThorN: 1200000,
		Profile: base().With(map[string]float64{"tx:transfer": 22, "tx:nft": 22, "tx:multi": 26, "p:contract-caller": 0.5, "p:call": 0.45, "p:adv-dest": 0.2, "tx:create": 8, "p:fault": 0.04, "ev:upgrade": 2.5}),
		Rule:    "seeded histories of transfers to payable / non-payable / erroring contracts, users, metachain, self and wrong-length addresses, all call types, with and without attached call, both execution sides; payability truth is the simulator's table, not the handler",
		MustHit: []string{"ESDTTransfer/dst/err-required", "ESDTNFTTransfer/snd/err-required", "MultiESDTNFTTransfer/dst/err-required", "MultiESDTNFTTransfer/snd/err-required"},
		Faults:  "erroring payability lookups (table state and injected IsPayable failures), refusal+refund, reorder/delay"})
	add(&PropSpec{ID: "C10", Level: "exploration", Steps: [2]int{40, 140}, QuickN: 24000, ThorN: 1200000,
		Profile: base().With(map[string]float64{"tx:transfer": 22, "tx:nft": 22, "tx:multi": 28, "p:call": 0.5, "p:contract-caller": 0.45, "tx:username": 5, "sc:handover": 5, "tx:create": 8}),
		Rule:    "every emitted data string of every history is parsed by the real call-arguments parser and compared with what the explained diff expects; the real ESDT-transfer parser's report for every accepted transfer call (both sides) is compared with what the ledger moved; continuations must be accepted by the destination shard",
		MustHit: []string{"MultiESDTNFTTransfer/dst/ok", "ESDTNFTTransfer/dst/ok", "ESDTTransfer/dst/ok"},
		Faults:  "reorder/delay, refusal+refund"})
	add(&PropSpec{ID: "C11", Level: "exploration", Steps: [2]int{30, 120}, QuickN: 24000, ThorN: 1200000,
		Profile: base().With(map[string]float64{"tx:adversarial": 40, "tx:forged": 10, "sc:setrole-again": 3, "sc:unsetrole": 5, "sc:freeze": 8, "tx:adduri": 8, "tx:updattr": 8, "tx:addqty": 6, "p:adv-amount": 0.5, "p:adv-token": 0.3, "p:adv-dest": 0.25, "p:adv-gas": 0.3}),
		Rule:    "seeded histories dominated by adversarial transactions (0..12 arguments from the adversarial pools) against states reached through real calls, with the transaction-reachable account-presence patterns and protocol-generated destination-side inputs; every call runs under recover with result-shape and allocation checks",
		MustHit: []string{"MultiESDTNFTTransfer/snd/err", "ESDTNFTTransfer/snd/err"},
		Faults:  "reorder/delay, dependency failure+rollback"})
	add(&PropSpec{ID: "C12", Level: "exploration", Steps: [2]int{30, 100}, QuickN: 24000, ThorN: 1200000,
		Profile: base().With(map[string]float64{"ev:corrupt": 14, "p:call": 0.5, "tx:adversarial": 10}),
		Rule:    "REDUCED SCOPE: only simulated traffic. Every transaction string (built by the real builder), every emitted message and fault-corrupted copies of both (truncation, flipped bit, non-hex character, inserted/removed separator, upper-case hex) go through the real call-args, ESDT-transfer, deploy and storage-update parsers under recover and are compared with the documented grammar; per-call storage diffs are re-parsed by the storage-updates parser. The exhaustive enumeration of all short strings is not attempted.",
		MustHit: []string{"corrupt-inflight-copy"},
		Faults:  "corruption of in-flight copies (discarded afterwards)"})
	add(&PropSpec{ID: "C13", Level: "exploration", Steps: [2]int{30, 100}, QuickN: 16000, ThorN: 800000,
		Profile: base().With(map[string]float64{"probe:double": 0.35}),
		Rule:    "sampled calls of seeded histories are executed four times from equal snapshots (same function objects twice, another goroutine, freshly built container) and the canonical serialisation of (output, post-state) compared; every call's input is laid out in one buffer with spare capacity and canary bytes and compared after the call",
		MustHit: []string{"double-exec-calls"},
		Faults:  "node restart (fresh function objects), repetition on reused instances"})
	add(&PropSpec{ID: "C14", Level: "exploration", Steps: [2]int{30, 120}, QuickN: 24000, ThorN: 1200000,
		Profile: base().With(map[string]float64{"ev:corrupt": 10, "tx:create": 20, "tx:nft": 12, "tx:multi": 12, "sc:setrole": 10, "sc:issue": 8}),
		Rule:    "REDUCED SCOPE: values that simulated histories store or ship. Every Marshal through the codec seam is compared byte for byte with an independent encoder of the documented wire format, with Size(), with a second Marshal and with Unmarshal(Marshal(x)); stored values hit by corruption faults (flipped bit, truncation, extension) are decoded under recover. Negative amounts and exhaustive small-buffer enumeration are not attempted.",
		MustHit: []string{"corrupt-stored-value"},
		Faults:  "corruption of stored values: flipped bit, truncation (torn write), extension (decoded and discarded)"})
	add(&PropSpec{ID: "C15", Level: "exploration", Steps: [2]int{150, 400}, QuickN: 6000, ThorN: 250000,
		Profile: base().With(map[string]float64{"p:adv-token": 0.12, "ev:redeliver": 1.5, "sc:handover": 4}),
		Rule:    "long seeded random walks (150-400 events) with all operation kinds; after every event every account on every shard is scanned and decoded by the oracle's own decoder and the representation invariants and the supply equation are evaluated",
		MustHit: []string{"ESDTNFTCreate/snd/ok", "ESDTFreeze/dst/ok", "ESDTWipe/dst/ok", "handover-cross-shard"},
		Faults:  "all world fault kinds: reorder/delay, refusal+refund, stale control state, dependency failure+rollback, restart, epoch regression, rejected schedules, duplicate hand-over delivery"})
	add(&PropSpec{ID: "C16", Level: "exploration", Steps: [2]int{40, 140}, QuickN: 24000, ThorN: 1200000,
		Profile: base().With(map[string]float64{"ev:sched": 9, "ev:restart": 2, "p:adv-gas": 0.05, "tx:skv": 8, "tx:owner": 5, "tx:claim": 5, "tx:username": 5, "tx:mint": 6, "tx:lburn": 6, "tx:burn": 5, "tx:create": 10,
			"tx:addqty": 6, "tx:nftburn": 6, "tx:adduri": 6, "tx:updattr": 6}),
		Rule:    "seeded histories of accepted and rejected (zero / missing entry in either sub-map) schedule changes per shard with pairwise distinct entries, restarts, and charging-side executions of all 15 priced functions with varied argument sizes; the charge of every successful call is compared with the schedule that shard last accepted",
		MustHit: []string{"rejected-schedule", "node-restart", "ESDTNFTCreate/snd/ok", "SaveKeyValue/snd/ok", "MultiESDTNFTTransfer/snd/ok", "ESDTNFTAddURI/snd/ok"},
		Faults:  "gas-schedule changes (accepted, rejected), node restart"})
	add(&PropSpec{ID: "C17", Level: "fault_enumeration", Steps: [2]int{30, 90}, QuickN: 16000, ThorN: 800000,
		Profile: base().With(map[string]float64{"probe:faults": 0.5, "p:fault": 0.0}),
		Rule:    "for sampled successful calls of seeded histories (all functions, both sides) the call is first executed on a snapshot to count its dependency calls per kind, then re-executed once per (kind, k) with the k-th call of that kind failing: an enumeration of fault points per scenario; a case is one (call, kind, k)",
		MustHit: []string{"fault-point:trie_write", "fault-point:load_account", "fault-point:save_account", "fault-point:marshal", "fault-point:unmarshal", "fault-point:is_payable", "fault-point:add_to_balance", "fault-point:change_owner", "fault-point:claim_rewards"},
		Faults:  "k-th data-trie write / account load / account save / marshal / unmarshal / payability query / balance / owner / reward operation fails; storage reads and the pause lookup injected as fail-soft (shape only)"})
	add(&PropSpec{ID: "C18", Level: "exploration", Steps: [2]int{40, 120}, QuickN: 24000, ThorN: 1200000,
		Profile: base().With(map[string]float64{"ev:epoch": 14, "ev:restart": 3, "tx:adduri": 8, "tx:updattr": 8, "tx:multi": 14, "p:epoch-regress": 0.5}),
		Rule:    "clock scripts (regressions, repeats, jumps, 0 and 2^32-1) on the stub epoch notifier inside seeded histories plus a bounded enumeration of all scripts up to length 4 over a small epoch domain and the 32-bit boundaries; IsActive of all 23 registered functions is compared with the model after every notification and every restart; every call goes through container.Get(name) and is judged by the contract of that name",
		MustHit: []string{"epoch-regression", "epoch-repeat", "epoch-jump", "node-restart", "inactive"},
		Faults:  "epoch regressions, repeats, jumps, node restart"})
	// ALL is not a property: it is the development tool used when testing seeded changes that may break
	// any property (a balanced mix with every probe kind; any violation of any property is reported)
	add(&PropSpec{ID: "ALL", Level: "exploration", Steps: [2]int{40, 200}, QuickN: 32000, ThorN: 800000,
		Profile: base().With(map[string]float64{"probe:faults": 0.06, "probe:gas": 0.04, "probe:double": 0.05, "ev:corrupt": 2, "ev:sched": 2.5, "ev:epoch": 2.5, "ev:restart": 1,
			"ev:redeliver": 1.5, "ev:upgrade": 1, "tx:skv": 5, "p:adv-gas": 0.18, "sc:setrole-again": 0.3}),
		Rule: "development tool: balanced mix, any violation of any property"})
	return m
}
