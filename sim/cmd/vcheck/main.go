// vcheck drives the deterministic world simulation for one property: seeded batches of runs in
// worker processes, oracle verdicts, minimisation, replay files, evidence.
package main

import (
	"encoding/json"
	"flag"
	"fmt"
	"hash/fnv"
	"math/rand"
	"os"
	"os/exec"
	"path/filepath"
	"runtime"
	"sort"
	"strconv"
	"strings"
	"syscall"
	"time"

	"verifsim/gen"
	"verifsim/spec"
	"verifsim/world"
)

// RunResult is what one run reports.
type RunResult struct {
	Seed    int64         `json:"seed"`
	From    int64         `json:"worker_from,omitempty"` // first seed of the worker process that ran it
	Cfg     world.Config  `json:"cfg"`
	Events  int           `json:"events"`
	Calls   int           `json:"calls"`
	Found   []FoundJSON   `json:"found,omitempty"`
	Trace   []world.Event `json:"trace,omitempty"`
	LogHash uint64        `json:"log_hash"`
	Hash    uint64        `json:"hash"`
}

// SampleRun is one explored case written out in full (first events of one run) for the evidence file.
type SampleRun struct {
	Seed        int64         `json:"seed"`
	Config      world.Config  `json:"config"`
	TotalEvents int           `json:"total_events"`
	Calls       int           `json:"oracle_judged_calls"`
	FirstEvents []world.Event `json:"first_events"`
}

// FoundJSON is a violation in serialisable form.
type FoundJSON struct {
	Props  []string `json:"props"`
	Clause string   `json:"clause"`
	Detail string   `json:"detail"`
	Event  int      `json:"event"`
}

// WorkerOut is the aggregate a worker process writes.
type WorkerOut struct {
	Runs           int               `json:"runs"`
	Events         int               `json:"events"`
	Calls          int               `json:"calls"`
	Outcome        map[string]int    `json:"outcome"`
	Faults         map[string]int    `json:"faults"`
	Probes         map[string]int    `json:"probes"`
	DepCalls       []int             `json:"dep_calls"`
	States         []uint64          `json:"states"`
	Sigs           []uint64          `json:"sigs"`
	Distinct       int               `json:"codec_distinct"`
	Violating      []RunResult       `json:"violating,omitempty"`
	Foreign        map[string]int    `json:"foreign,omitempty"`
	ForeignSamples []string          `json:"foreign_samples,omitempty"`
	SampleRun      *SampleRun        `json:"sample_run,omitempty"`
	RunHashes      map[string]uint64 `json:"run_hashes,omitempty"`
	Samples        []string          `json:"samples,omitempty"`
	EpochEvs       int               `json:"epoch_events"`
	SchedAcc       int               `json:"sched_accepted"`
	SchedRej       int               `json:"sched_rejected"`
	Parser         int               `json:"parser_checks"`
	Err            string            `json:"err,omitempty"`
}

func drawConfig(r *rand.Rand, ps *PropSpec) world.Config {
	cfg := world.Config{CfgSeed: r.Int63(), SchedSeed: r.Int63()}
	cfg.NumShards = uint32(1 + r.Intn(3))
	if cfg.NumShards == 1 && r.Intn(3) != 0 {
		cfg.NumShards = 2
	}
	cfg.NumUsers = 3 + r.Intn(6)
	cfg.NumContracts = 1 + r.Intn(4)
	cfg.NumTokens = 2 + r.Intn(4)
	switch r.Intn(4) {
	case 0:
		cfg.ActivationEpoch = 0
	case 1:
		cfg.ActivationEpoch = 1
	case 2:
		cfg.ActivationEpoch = uint32(2 + r.Intn(4))
	default:
		cfg.ActivationEpoch = 0
	}
	cfg.StartEpoch = cfg.ActivationEpoch
	if r.Intn(4) == 0 && cfg.ActivationEpoch > 0 {
		cfg.StartEpoch = cfg.ActivationEpoch - 1
	}
	if r.Intn(4) == 0 {
		cfg.StartEpoch = cfg.ActivationEpoch + uint32(r.Intn(3))
	}
	cfg.NameChange = r.Intn(2) == 0
	cfg.FIFO = r.Intn(2) == 0
	cfg.PreHistory = r.Intn(4) == 0
	cfg.LateSchedule = r.Intn(5) == 0
	switch x := r.Intn(20); {
	case x < 3:
		cfg.NumDNS = -1
	case x < 12:
		cfg.NumDNS = 1
	default:
		cfg.NumDNS = 2
	}
	cfg.OddUser = r.Intn(6) == 0
	cfg.HostReusesDNSMap = r.Intn(5) == 0
	cfg.LongIDs = r.Intn(12) == 0
	cfg.TraceLog = r.Intn(8) == 0
	cfg.ScratchReads = r.Intn(6) == 0
	cfg.NilTrie = r.Intn(3) == 0
	cfg.TypedNilAccounts = r.Intn(5) == 0
	if r.Intn(6) == 0 {
		cfg.NumDNS = []int{5, 9, 33}[r.Intn(3)]
	}
	return cfg
}

func toFound(fs []world.Found) []FoundJSON {
	var out []FoundJSON
	for _, f := range fs {
		out = append(out, FoundJSON{Props: f.V.Props, Clause: f.V.Clause, Detail: f.V.Detail, Event: f.Event})
	}
	return out
}

func hashLog(lines []string) uint64 {
	h := fnv.New64a()
	for _, l := range lines {
		h.Write([]byte(l))
		h.Write([]byte{'\n'})
	}
	return h.Sum64()
}

// runSeed executes one seeded run.
var walFile *os.File

// stopProp: the property whose violations end a run (set from -prop).
var stopProp string

func walWrite(v interface{}) {
	if walFile == nil {
		return
	}
	b, _ := json.Marshal(v)
	walFile.Write(append(b, '\n'))
}

// limitMemory caps the address space of a worker so that an allocation proportional to an
// attacker-chosen number kills the process quickly instead of exhausting the machine.
func limitMemory() {
	lim := &syscall.Rlimit{Cur: 8 << 30, Max: 8 << 30}
	_ = syscall.Setrlimit(syscall.RLIMIT_AS, lim)
}

func runSeed(seed int64, ps *PropSpec, keepLog bool) (*RunResult, *world.World, error) {
	r := rand.New(rand.NewSource(seed))
	cfg := drawConfig(r, ps)
	walWrite(cfg)
	w, err := world.NewWorld(cfg)
	if err != nil {
		return nil, nil, err
	}
	if w.Broken {
		return &RunResult{Seed: seed, Cfg: cfg, Found: toFound(w.Found), Trace: []world.Event{}}, w, nil
	}
	w.KeepLog = keepLog
	w.StopProp = stopProp
	g := &gen.Gen{R: r, W: w, P: gen.Swarm(r, ps.Profile), Boot: 8 + r.Intn(14)}
	steps := ps.Steps[0] + r.Intn(ps.Steps[1]-ps.Steps[0]+1)
	if r.Intn(400) == 0 {
		steps *= 12 // a marathon: hidden state in long-lived function objects, deep histories
	}
	for _, nd := range w.Nodes {
		w.CheckRegistry(nd)
	}
	for i := 0; i < steps && !w.Stop(); i++ {
		ev := g.Next()
		w.Trace = append(w.Trace, ev)
		walWrite(ev)
		w.Apply(ev)
	}
	if !w.Stop() && walFile == nil {
		// the last event of every run: deliver everything with faults off; nothing may stay in flight
		ev := world.Event{N: w.NextN, K: "quiesce"}
		w.Trace = append(w.Trace, ev)
		w.Apply(ev)
	}
	res := &RunResult{Seed: seed, Cfg: cfg, Events: w.Stats.Events, Calls: w.Stats.Calls, Found: toFound(w.Found), Hash: w.Hash()}
	if keepLog {
		res.LogHash = hashLog(w.Log)
	}
	if len(w.Found) > 0 {
		res.Trace = w.Trace
	}
	return res, w, nil
}

// replayTrace applies a recorded trace to a fresh world.
func replayTrace(cfg world.Config, evs []world.Event, keepLog bool) (*world.World, error) {
	w, err := world.NewWorld(cfg)
	if err != nil {
		return nil, err
	}
	if w.Broken {
		return w, nil
	}
	w.KeepLog = keepLog
	for _, nd := range w.Nodes {
		w.CheckRegistry(nd)
	}
	w.StopProp = stopProp
	for _, ev := range evs {
		if w.Stop() {
			break
		}
		w.Apply(ev)
	}
	return w, nil
}

func sameViolation(w *world.World, prop, clause string) *world.Found {
	for i, f := range w.Found {
		if f.V.Clause == clause && (f.V.Has(prop) || prop == "ALL") {
			return &w.Found[i]
		}
	}
	return nil
}

// minimise is ddmin over the event list, keeping a candidate only if the same oracle clause fires
// for the same property.
func minimise(cfg world.Config, evs []world.Event, prop, clause string, budget time.Duration) []world.Event {
	deadline := time.Now().Add(budget)
	test := func(c []world.Event) bool {
		w, err := replayTrace(cfg, c, false)
		if err != nil {
			return false
		}
		return sameViolation(w, prop, clause) != nil
	}
	// cut the tail after the violating event first
	cur := evs
	n := 2
	for len(cur) >= 2 && time.Now().Before(deadline) {
		chunk := (len(cur) + n - 1) / n
		reduced := false
		for i := 0; i < len(cur) && time.Now().Before(deadline); i += chunk {
			j := i + chunk
			if j > len(cur) {
				j = len(cur)
			}
			cand := append(append([]world.Event{}, cur[:i]...), cur[j:]...)
			if len(cand) > 0 && test(cand) {
				cur = cand
				if n > 2 {
					n--
				}
				reduced = true
				break
			}
		}
		if !reduced {
			if chunk == 1 {
				break
			}
			n *= 2
			if n > len(cur) {
				n = len(cur)
			}
		}
	}
	// strip probe wrappers and faults where the plain event suffices
	for i := range cur {
		if !time.Now().Before(deadline) {
			break
		}
		ev := cur[i]
		if ev.K == "probe" && (ev.Tx != nil || ev.ID != "") && ev.Probe != "corrupt" {
			plain := ev
			plain.Probe = ""
			if ev.Tx != nil {
				plain.K = "tx"
			} else {
				plain.K = "deliver"
			}
			cand := append([]world.Event{}, cur...)
			cand[i] = plain
			if test(cand) {
				cur = cand
			}
		}
		if len(cur[i].Fault) > 0 {
			cand := append([]world.Event{}, cur...)
			c := cand[i]
			c.Fault = nil
			cand[i] = c
			if test(cand) {
				cur = cand
			}
		}
	}
	return cur
}

// ReplayFile is the on-disk format of a violation.
type ReplayFile struct {
	Property  string        `json:"property"`
	Seed      int64         `json:"seed"`
	Config    world.Config  `json:"config"`
	Events    []world.Event `json:"events"`
	Violation FoundJSON     `json:"violation"`
	OrigLen   int           `json:"original_events"`
	// Kind "seed-range": the violation needs the process history of the worker that found it (hidden
	// state in the code under test survives between executions): replay re-runs seeds From..Seed
	Kind string `json:"kind,omitempty"`
	From int64  `json:"from,omitempty"`
	// Arch: set when the violation was found on a build for another architecture than amd64; the
	// replay must run on a build for that architecture (./check dispatches)
	Arch string `json:"arch,omitempty"`
}

func worker(ps *PropSpec, from, to int64, outPath string, keepHashes bool, maxViol int) {
	out := &WorkerOut{Outcome: map[string]int{}, Faults: map[string]int{}, Probes: map[string]int{}, DepCalls: make([]int, world.NumDepKinds), Foreign: map[string]int{}, RunHashes: map[string]uint64{}}
	states := map[uint64]struct{}{}
	sigs := map[uint64]struct{}{}
	limitMemory()
	for seed := from; seed < to; seed++ {
		_ = os.WriteFile(outPath+".cur", []byte(strconv.FormatInt(seed, 10)), 0o644)
		res, w, err := runSeed(seed, ps, keepHashes)
		if err != nil {
			out.Err = err.Error()
			break
		}
		out.Runs++
		out.Events += res.Events
		out.Calls += res.Calls
		for k, v := range w.Stats.Outcome {
			out.Outcome[k] += v
		}
		for k, v := range w.Stats.Faults {
			out.Faults[k] += v
		}
		for k, v := range w.Stats.Probes {
			out.Probes[k] += v
		}
		for i, v := range w.Stats.DepCalls {
			out.DepCalls[i] += v
		}
		out.EpochEvs += w.Stats.EpochEvents
		out.SchedAcc += w.Stats.SchedAccepted
		out.SchedRej += w.Stats.SchedRejected
		out.Parser += w.Stats.ParserChecks
		if len(states) < 150000 {
			for h := range w.Stats.StateHashes {
				states[h] = struct{}{}
			}
		}
		if len(sigs) < 150000 {
			for h := range w.Stats.CallSigs {
				sigs[h] = struct{}{}
			}
		}
		for _, nd := range w.Nodes {
			out.Distinct += len(nd.Codec.Distinct)
		}
		if keepHashes {
			out.RunHashes[strconv.FormatInt(seed, 10)] = res.LogHash ^ res.Hash
		}
		if len(out.Samples) < 3 && len(w.Trace) > 0 {
			out.Samples = append(out.Samples, sampleOf(seed, w))
		}
		if out.SampleRun == nil && len(w.Trace) > 30 {
			n := 14
			out.SampleRun = &SampleRun{Seed: seed, Config: w.Cfg, TotalEvents: len(w.Trace), Calls: w.Stats.Calls, FirstEvents: append([]world.Event{}, w.Trace[16:16+n]...)}
		}
		if len(res.Found) > 0 {
			mine := false
			for _, f := range res.Found {
				if has(f.Props, ps.ID) || ps.ID == "ALL" {
					mine = true
				}
			}
			if mine {
				if len(out.Violating) < maxViol {
					res.From = from
					out.Violating = append(out.Violating, *res)
				}
			} else {
				out.Foreign[res.Found[0].Clause+" ["+strings.Join(res.Found[0].Props, ",")+"]"]++
				if len(out.ForeignSamples) < 2 {
					out.ForeignSamples = append(out.ForeignSamples, fmt.Sprintf("seed %d: %s: %s", seed, res.Found[0].Clause, trunc(res.Found[0].Detail, 400)))
				}
			}
		}
	}
	for h := range states {
		out.States = append(out.States, h)
	}
	for h := range sigs {
		out.Sigs = append(out.Sigs, h)
	}
	b, _ := json.Marshal(out)
	if err := os.WriteFile(outPath, b, 0o644); err != nil {
		fmt.Fprintln(os.Stderr, "worker: cannot write result:", err)
		os.Exit(2)
	}
}

func sampleOf(seed int64, w *world.World) string {
	var sb strings.Builder
	fmt.Fprintf(&sb, "seed %d: %d shards, %d users, %d contracts, %d tokens; first events:", seed, w.Cfg.NumShards, w.Cfg.NumUsers, w.Cfg.NumContracts, w.Cfg.NumTokens)
	n := 0
	for _, ev := range w.Trace {
		if n >= 6 {
			break
		}
		switch ev.K {
		case "tx":
			fmt.Fprintf(&sb, " tx[%s gas=%d]", trunc(ev.Tx.Data, 70), ev.Tx.Gas)
		case "probe":
			if ev.Tx != nil {
				fmt.Fprintf(&sb, " probe:%s[%s]", ev.Probe, trunc(ev.Tx.Data, 60))
			} else {
				fmt.Fprintf(&sb, " probe:%s[%s]", ev.Probe, ev.ID)
			}
		case "sc":
			fmt.Fprintf(&sb, " sc[%s %s]", ev.SC.Op, string(unhexs(ev.SC.Token)))
		case "deliver", "redeliver":
			fmt.Fprintf(&sb, " %s[%s]", ev.K, ev.ID)
		default:
			fmt.Fprintf(&sb, " %s[shard %d]", ev.K, ev.Shard)
		}
		n++
	}
	return sb.String()
}

func trunc(s string, n int) string {
	if len(s) > n {
		return s[:n] + "..."
	}
	return s
}

func unhexs(s string) []byte {
	b := make([]byte, len(s)/2)
	for i := 0; i+1 < len(s); i += 2 {
		v, _ := strconv.ParseUint(s[i:i+2], 16, 8)
		b[i/2] = byte(v)
	}
	return b
}

func has(l []string, x string) bool {
	for _, y := range l {
		if x == y {
			return true
		}
	}
	return false
}

// archStage is set in the second stage of a check: the same histories on a build whose int, uint
// and pointers are 32 bits wide (GOARCH=386). It runs a fraction of the runs, writes replay files that
// name their architecture and adds its figures to the evidence file of the first stage.
var archStage string

func main() {
	stage := flag.String("stage", "", "internal: \"arch\" = second stage on another build architecture")
	prop := flag.String("prop", "", "property id")
	tier := flag.String("tier", "quick", "quick|thorough")
	seed := flag.Int64("seed", 1, "base seed")
	runs := flag.Int("runs", 0, "override number of runs")
	workers := flag.Int("workers", 16, "worker processes")
	isWorker := flag.Bool("worker", false, "internal: run a seed range")
	from := flag.Int64("from", 0, "internal")
	to := flag.Int64("to", 0, "internal")
	outPath := flag.String("out", "", "internal: worker result path / evidence path")
	replay := flag.String("replay", "", "replay a violation file")
	verifDir := flag.String("verif", "/verif", "verif directory")
	hashes := flag.Bool("hashes", false, "record per-run log hashes (determinism self-test)")
	one := flag.Int64("one", -1, "run one seed verbosely")
	wal := flag.String("wal", "", "internal: write-ahead log of the events of -one (crash investigation)")
	inproc := flag.Bool("inproc", false, "internal: apply a replay file in this process without judging the outcome")
	flag.Parse()

	if *replay != "" && *inproc {
		limitMemory()
		b, err := os.ReadFile(*replay)
		if err != nil {
			os.Exit(2)
		}
		var rf ReplayFile
		if json.Unmarshal(b, &rf) != nil {
			os.Exit(2)
		}
		if _, err := replayTrace(rf.Config, rf.Events, false); err != nil {
			os.Exit(2)
		}
		return
	}

	if *replay != "" {
		os.Exit(doReplay(*replay))
	}
	archStage = *stage
	stopProp = *prop
	if stopProp == "ALL" {
		stopProp = ""
	}
	all := props()
	ps, ok := all[*prop]
	if !ok {
		fmt.Fprintf(os.Stderr, "unknown property %q\n", *prop)
		os.Exit(2)
	}
	if *one >= 0 && *wal != "" {
		limitMemory()
		f, err := os.Create(*wal)
		if err != nil {
			os.Exit(2)
		}
		walFile = f
		_, _, _ = runSeed(*one, ps, false)
		return
	}
	if *one >= 0 {
		res, w, err := runSeed(*one, ps, true)
		if err != nil {
			fmt.Println("error:", err)
			os.Exit(2)
		}
		for _, l := range w.Log {
			fmt.Println(l)
		}
		fmt.Printf("seed %d: events=%d calls=%d found=%d hash=%x\n", *one, res.Events, res.Calls, len(res.Found), res.Hash)
		for _, f := range res.Found {
			fmt.Printf("  %v %s: %s\n", f.Props, f.Clause, f.Detail)
		}
		return
	}
	if *isWorker {
		worker(ps, *from, *to, *outPath, *hashes, 3)
		return
	}
	os.Exit(parent(ps, *tier, *seed, *runs, *workers, *verifDir, *hashes))
}

func doReplay(path string) int {
	b, err := os.ReadFile(path)
	if err == nil {
		var probe struct {
			Arch string `json:"arch"`
		}
		if json.Unmarshal(b, &probe) == nil && probe.Arch != "" && probe.Arch != runtime.GOARCH {
			fmt.Fprintf(os.Stderr, "this replay file was recorded on a %s build; replay it with ./check <property> --replay <file>, which picks that build\n", probe.Arch)
			return 2
		}
	}
	if err != nil {
		fmt.Fprintln(os.Stderr, "cannot read replay file:", err)
		return 2
	}
	var rf ReplayFile
	if err := json.Unmarshal(b, &rf); err != nil {
		fmt.Fprintln(os.Stderr, "bad replay file:", err)
		return 2
	}
	stopProp = rf.Property
	if stopProp == "ALL" {
		stopProp = ""
	}
	if rf.Property == "C19" {
		fmt.Fprintln(os.Stderr, "C19 replay files are replayed by the concurrency engine (check C19 --replay)")
		return 2
	}
	if rf.Kind == "seed-range" {
		ps, ok := props()[rf.Property]
		if !ok {
			return 2
		}
		limitMemory()
		for sd := rf.From; sd <= rf.Seed; sd++ {
			res, _, err := runSeed(sd, ps, false)
			if err != nil {
				fmt.Fprintln(os.Stderr, err)
				return 2
			}
			if sd == rf.Seed {
				for _, f := range res.Found {
					if f.Clause == rf.Violation.Clause && has(f.Props, rf.Property) {
						fmt.Printf("reproduced with the process history of seeds %d..%d: [%s] %s: %s\n", rf.From, rf.Seed, strings.Join(f.Props, ","), f.Clause, f.Detail)
						fmt.Printf("VIOLATION property=%s replay=%s\n", rf.Property, path)
						return 1
					}
				}
			}
		}
		fmt.Println("the recorded violation does not occur on this tree")
		return 0
	}
	if rf.Violation.Clause == "process-death" {
		self, _ := os.Executable()
		c := exec.Command(self, "-replay", path, "-inproc")
		c.Env = append(os.Environ(), "GOMAXPROCS=1")
		out, err := c.CombinedOutput()
		if err != nil && (strings.Contains(string(out), "fatal error") || strings.Contains(string(out), "signal:")) {
			fmt.Printf("reproduced: the process executing the recorded events died: %s\n", firstLine(string(out)))
			fmt.Printf("VIOLATION property=%s replay=%s\n", rf.Property, path)
			return 1
		}
		fmt.Println("the recorded process death does not occur on this tree")
		return 0
	}
	w, err := replayTrace(rf.Config, rf.Events, true)
	if err != nil {
		fmt.Fprintln(os.Stderr, "cannot rebuild world:", err)
		return 2
	}
	for _, l := range w.Log {
		fmt.Println(l)
	}
	if f := sameViolation(w, rf.Property, rf.Violation.Clause); f != nil {
		fmt.Printf("reproduced: [%s] %s: %s\n", strings.Join(f.V.Props, ","), f.V.Clause, f.V.Detail)
		fmt.Printf("VIOLATION property=%s replay=%s\n", rf.Property, path)
		return 1
	}
	fmt.Println("the recorded violation does not occur on this tree")
	return 0
}

// KnownFinding is one entry of /verif/known_findings.json.
type KnownFinding struct {
	Property string `json:"property"`
	Key      string `json:"key"`
	Status   string `json:"status"` // open | fixed
	Commit   string `json:"commit,omitempty"`
	What     string `json:"what"`
	Match    string `json:"match,omitempty"` // substring of clause+detail identifying the failing site
}

func loadKnown(dir string) []KnownFinding {
	b, err := os.ReadFile(filepath.Join(dir, "known_findings.json"))
	if err != nil {
		return nil
	}
	var f struct {
		Findings []KnownFinding `json:"findings"`
	}
	if json.Unmarshal(b, &f) != nil {
		return nil
	}
	return f.Findings
}

func parent(ps *PropSpec, tier string, seed int64, runs, workers int, verifDir string, hashes bool) int {
	start := time.Now()
	if runs == 0 {
		runs = ps.QuickN
		if tier == "thorough" {
			runs = ps.ThorN
		}
	}
	if archStage != "" {
		if tier == "thorough" {
			runs /= 20
		} else {
			runs /= 8
		}
	}
	if workers > runs {
		workers = runs
	}
	self, _ := os.Executable()
	tmp, err := os.MkdirTemp("", "vcheck-"+ps.ID+"-")
	if err != nil {
		fmt.Fprintln(os.Stderr, "cannot create scratch dir:", err)
		return 2
	}
	defer os.RemoveAll(tmp)
	if archStage != "" {
		fmt.Printf("second stage: the same histories on a %s build (32-bit int, uint, pointers): ", runtime.GOARCH)
	}
	fmt.Printf("VERIF_SEED=%d property=%s tier=%s runs=%d workers=%d\n", seed, ps.ID, tier, runs, workers)
	per := (runs + workers - 1) / workers
	type job struct {
		cmd *exec.Cmd
		out string
	}
	var jobs []job
	for i := 0; i < workers; i++ {
		a := seed*10_000_000 + int64(i*per)
		b := a + int64(per)
		if int(b-seed*10_000_000) > runs {
			b = seed*10_000_000 + int64(runs)
		}
		if a >= b {
			break
		}
		out := filepath.Join(tmp, fmt.Sprintf("w%d.json", i))
		args := []string{"-worker", "-prop", ps.ID, "-from", fmt.Sprint(a), "-to", fmt.Sprint(b), "-out", out}
		if hashes {
			args = append(args, "-hashes")
		}
		c := exec.Command(self, args...)
		c.Env = append(os.Environ(), "GOMAXPROCS=1")
		c.Stderr = nil
		if err := c.Start(); err != nil {
			fmt.Fprintln(os.Stderr, "cannot start worker:", err)
			return 2
		}
		jobs = append(jobs, job{c, out})
	}
	agg := &WorkerOut{Outcome: map[string]int{}, Faults: map[string]int{}, Probes: map[string]int{}, DepCalls: make([]int, world.NumDepKinds), Foreign: map[string]int{}, RunHashes: map[string]uint64{}}
	states := map[uint64]struct{}{}
	sigs := map[uint64]struct{}{}
	trouble := ""
	deaths := 0
	deathReplay, deathDetail := "", ""
	for _, j := range jobs {
		err := j.cmd.Wait()
		if err != nil {
			// a dead worker: find out whether the seed it was executing kills the process reproducibly
			curB, _ := os.ReadFile(j.out + ".cur")
			cur, perr := strconv.ParseInt(strings.TrimSpace(string(curB)), 10, 64)
			if perr == nil {
				if p, d := investigateDeath(self, ps, cur, tmp, verifDir); p != "" {
					deaths++
					if deathReplay == "" {
						deathReplay, deathDetail = p, d
					}
					continue
				}
			}
			trouble = fmt.Sprintf("worker failed: %v", err)
			continue
		}
		b, err := os.ReadFile(j.out)
		if err != nil {
			trouble = "worker wrote no result"
			continue
		}
		var wo WorkerOut
		if err := json.Unmarshal(b, &wo); err != nil {
			trouble = "worker result unreadable"
			continue
		}
		if wo.Err != "" {
			trouble = wo.Err
		}
		agg.Runs += wo.Runs
		agg.Events += wo.Events
		agg.Calls += wo.Calls
		agg.Distinct += wo.Distinct
		agg.EpochEvs += wo.EpochEvs
		agg.SchedAcc += wo.SchedAcc
		agg.SchedRej += wo.SchedRej
		agg.Parser += wo.Parser
		for k, v := range wo.Outcome {
			agg.Outcome[k] += v
		}
		for k, v := range wo.Faults {
			agg.Faults[k] += v
		}
		for k, v := range wo.Probes {
			agg.Probes[k] += v
		}
		for k, v := range wo.Foreign {
			agg.Foreign[k] += v
		}
		if len(agg.ForeignSamples) < 4 {
			agg.ForeignSamples = append(agg.ForeignSamples, wo.ForeignSamples...)
		}
		for k, v := range wo.RunHashes {
			agg.RunHashes[k] = v
		}
		for i, v := range wo.DepCalls {
			agg.DepCalls[i] += v
		}
		for _, h := range wo.States {
			states[h] = struct{}{}
		}
		for _, h := range wo.Sigs {
			sigs[h] = struct{}{}
		}
		agg.Violating = append(agg.Violating, wo.Violating...)
		if len(agg.Samples) < 4 {
			agg.Samples = append(agg.Samples, wo.Samples...)
		}
		if agg.SampleRun == nil {
			agg.SampleRun = wo.SampleRun
		}
	}
	if trouble != "" {
		fmt.Fprintln(os.Stderr, "HARNESS TROUBLE:", trouble)
		return 2
	}
	if ps.ID == "C18" {
		n, notes, bad := enumerateEpochScripts()
		agg.Probes["epoch-scripts-enumerated"] = n
		agg.Probes["epoch-script-notifications"] = notes
		agg.EpochEvs += notes
		if bad != nil {
			agg.Violating = append(agg.Violating, *bad)
		}
	}
	if hashes {
		b, _ := json.Marshal(agg.RunHashes)
		_ = os.WriteFile(filepath.Join(verifDir, "evidence", ps.ID+".hashes.json"), b, 0o644)
	}

	// violations: minimise, confirm by replay in a fresh process, classify against known findings
	known := loadKnown(verifDir)
	exit := 0
	reported := map[string]bool{}
	nviol := 0
	sort.Slice(agg.Violating, func(i, j int) bool { return len(agg.Violating[i].Trace) < len(agg.Violating[j].Trace) })
	for _, rr := range agg.Violating {
		var f *FoundJSON
		for i := range rr.Found {
			if has(rr.Found[i].Props, ps.ID) || ps.ID == "ALL" {
				f = &rr.Found[i]
				break
			}
		}
		if f == nil {
			continue
		}
		sig := f.Clause
		if reported[sig] || len(reported) >= 4 {
			nviol++
			continue
		}
		reported[sig] = true
		nviol++
		kf := matchKnown(known, ps.ID, f)
		if kf != nil {
			fmt.Printf("KNOWN-FINDING: property=%s %s (%s)\n", ps.ID, kf.Key, kf.What)
			continue
		}
		small := minimise(rr.Cfg, rr.Trace, ps.ID, f.Clause, 20*time.Second)
		w, err := replayTrace(rr.Cfg, small, false)
		if err != nil {
			fmt.Fprintln(os.Stderr, "HARNESS TROUBLE: cannot replay minimised trace:", err)
			return 2
		}
		got := sameViolation(w, ps.ID, f.Clause)
		if got == nil {
			small = rr.Trace
			w, _ = replayTrace(rr.Cfg, small, false)
			got = sameViolation(w, ps.ID, f.Clause)
			if got == nil {
				// not reproducible from a fresh world: does it reproduce with the worker's process
				// history (hidden state in the code under test carried from one execution to the next)?
				rf := ReplayFile{Property: ps.ID, Seed: rr.Seed, Kind: "seed-range", From: rr.From, Config: rr.Cfg, Arch: archOf(),
					Violation: FoundJSON{Props: f.Props, Clause: f.Clause, Detail: f.Detail + " [only with the process history of seeds " + fmt.Sprint(rr.From) + ".." + fmt.Sprint(rr.Seed) + ": state hidden in the code under test survives between executions]", Event: f.Event}}
				_ = os.MkdirAll(filepath.Join(verifDir, "replays"), 0o755)
				path := filepath.Join(verifDir, "replays", fmt.Sprintf("%s-seeds%d-%d%s.json", ps.ID, rr.From, rr.Seed, archSuffix()))
				b, _ := json.MarshalIndent(rf, "", " ")
				_ = os.WriteFile(path, b, 0o644)
				c := exec.Command(self, "-replay", path)
				c.Env = append(os.Environ(), "GOMAXPROCS=1")
				outB, _ := c.Output()
				if strings.Contains(string(outB), "VIOLATION property="+ps.ID) {
					fmt.Printf("violation (seeds %d..%d in one process): [%s] %s: %s\n", rr.From, rr.Seed, strings.Join(f.Props, ","), f.Clause, rf.Violation.Detail)
					fmt.Printf("VIOLATION property=%s replay=%s\n", ps.ID, path)
					exit = 1
					continue
				}
				fmt.Fprintf(os.Stderr, "HARNESS TROUBLE: violation of seed %d does not replay from its own trace nor with its worker's history (nondeterminism)\n", rr.Seed)
				return 2
			}
		}
		rf := ReplayFile{Property: ps.ID, Seed: rr.Seed, Config: rr.Cfg, Events: small, OrigLen: len(rr.Trace), Arch: archOf(),
			Violation: FoundJSON{Props: got.V.Props, Clause: got.V.Clause, Detail: got.V.Detail, Event: got.Event}}
		_ = os.MkdirAll(filepath.Join(verifDir, "replays"), 0o755)
		path := filepath.Join(verifDir, "replays", fmt.Sprintf("%s-seed%d%s.json", ps.ID, rr.Seed, archSuffix()))
		b, _ := json.MarshalIndent(rf, "", " ")
		_ = os.WriteFile(path, b, 0o644)
		// replay in a fresh process before reporting
		c := exec.Command(self, "-replay", path)
		c.Env = append(os.Environ(), "GOMAXPROCS=1")
		outB, _ := c.Output()
		if !strings.Contains(string(outB), "VIOLATION property="+ps.ID) {
			fmt.Fprintf(os.Stderr, "HARNESS TROUBLE: replay file %s does not reproduce in a fresh process\n", path)
			return 2
		}
		fmt.Printf("violation (seed %d, %d events minimised to %d): [%s] %s: %s\n", rr.Seed, len(rr.Trace), len(small), strings.Join(got.V.Props, ","), got.V.Clause, got.V.Detail)
		fmt.Printf("VIOLATION property=%s replay=%s\n", ps.ID, path)
		exit = 1
	}

	if deaths > 0 {
		nviol += deaths
		if ps.ID == "C11" {
			fmt.Printf("violation: [C11] process-death: %s\n", deathDetail)
			fmt.Printf("VIOLATION property=C11 replay=%s\n", deathReplay)
			exit = 1
		} else {
			agg.Foreign["process-death [C11]"] += deaths
		}
	}
	wall := time.Since(start).Seconds()
	// coverage holes fail the thorough tier with exit 2 (not a violation)
	var holes []string
	if tier == "thorough" && exit == 0 {
		for _, h := range ps.MustHit {
			if agg.Outcome[h] == 0 && agg.Probes[h] == 0 && agg.Faults[h] == 0 {
				holes = append(holes, h)
			}
		}
	}
	writeEvidence(ps, tier, seed, agg, len(states), len(sigs), wall, nviol, verifDir, holes)
	fmt.Printf("runs=%d events=%d calls=%d states=%d distinct-calls=%d wall=%.1fs runs/hour=%.0f foreign=%v\n", agg.Runs, agg.Events, agg.Calls, len(states), len(sigs), wall, float64(agg.Runs)/wall*3600, agg.Foreign)
	for _, fs := range agg.ForeignSamples {
		fmt.Println("foreign:", fs)
	}
	if len(holes) > 0 {
		fmt.Fprintf(os.Stderr, "COVERAGE HOLE (exit 2, not a violation): never reached %v\n", holes)
		return 2
	}
	return exit
}

func archOf() string {
	if runtime.GOARCH == "amd64" {
		return ""
	}
	return runtime.GOARCH
}

func archSuffix() string {
	if a := archOf(); a != "" {
		return "-" + a
	}
	return ""
}

func firstLine(s string) string {
	for _, l := range strings.Split(s, "\n") {
		if strings.Contains(l, "fatal error") || strings.Contains(l, "panic") {
			return strings.TrimSpace(l)
		}
	}
	if i := strings.Index(s, "\n"); i > 0 {
		return s[:i]
	}
	return s
}

// investigateDeath re-runs the seed a dead worker was executing with a write-ahead log and turns a
// reproducible process death into a replay file (C11: the call took the process down).
func investigateDeath(self string, ps *PropSpec, seed int64, tmp, verifDir string) (string, string) {
	wal := filepath.Join(tmp, fmt.Sprintf("wal-%d.jsonl", seed))
	c := exec.Command(self, "-prop", ps.ID, "-one", strconv.FormatInt(seed, 10), "-wal", wal)
	c.Env = append(os.Environ(), "GOMAXPROCS=1")
	out, err := c.CombinedOutput()
	if err == nil {
		return "", ""
	}
	b, rerr := os.ReadFile(wal)
	if rerr != nil {
		return "", ""
	}
	lines := strings.Split(strings.TrimSpace(string(b)), "\n")
	if len(lines) < 2 {
		return "", ""
	}
	var cfg world.Config
	if json.Unmarshal([]byte(lines[0]), &cfg) != nil {
		return "", ""
	}
	var evs []world.Event
	for _, l := range lines[1:] {
		var ev world.Event
		if json.Unmarshal([]byte(l), &ev) == nil {
			evs = append(evs, ev)
		}
	}
	detail := "the worker process died while executing the last event: " + firstLine(string(out))
	write := func(e []world.Event) string {
		rf := ReplayFile{Property: "C11", Seed: seed, Config: cfg, Events: e, OrigLen: len(evs), Violation: FoundJSON{Props: []string{"C11"}, Clause: "process-death", Detail: detail, Event: e[len(e)-1].N}}
		_ = os.MkdirAll(filepath.Join(verifDir, "replays"), 0o755)
		path := filepath.Join(verifDir, "replays", fmt.Sprintf("C11-seed%d-death.json", seed))
		jb, _ := json.MarshalIndent(rf, "", " ")
		_ = os.WriteFile(path, jb, 0o644)
		return path
	}
	dies := func(path string) bool {
		c := exec.Command(self, "-replay", path, "-inproc")
		c.Env = append(os.Environ(), "GOMAXPROCS=1")
		o, err := c.CombinedOutput()
		return err != nil && (strings.Contains(string(o), "fatal error") || strings.Contains(string(o), "signal:"))
	}
	// minimise: the fatal event alone, else the whole prefix
	path := write(evs[len(evs)-1:])
	if dies(path) {
		return path, detail
	}
	path = write(evs)
	if dies(path) {
		return path, detail
	}
	return "", ""
}

func firstWords(s string, n int) string {
	f := strings.Fields(s)
	if len(f) > n {
		f = f[:n]
	}
	return strings.Join(f, " ")
}

func matchKnown(known []KnownFinding, prop string, f *FoundJSON) *KnownFinding {
	for i, k := range known {
		if k.Property != prop || k.Status != "open" || k.Match == "" {
			continue
		}
		if strings.Contains(f.Clause+" "+f.Detail, k.Match) {
			return &known[i]
		}
	}
	return nil
}

func writeEvidence(ps *PropSpec, tier string, seed int64, agg *WorkerOut, nstates, nsigs int, wall float64, nviol int, verifDir string, holes []string) {
	depCalls := map[string]int{}
	for i, n := range agg.DepCalls {
		depCalls[world.DepNames[i]] = n
	}
	samples := []interface{}{}
	if agg.SampleRun != nil {
		samples = append(samples, agg.SampleRun)
	}
	for _, s := range agg.Samples {
		samples = append(samples, s)
	}
	if len(samples) == 0 {
		samples = append(samples, "no run completed")
	}
	evals := agg.Calls
	distinct := nsigs
	if ps.Level == "fault_enumeration" {
		evals = agg.Probes["fault-points"]
		if evals == 0 {
			evals = agg.Calls
		}
	}
	cov := map[string]interface{}{
		"evaluations":                  evals,
		"distinct_nontrivial":          distinct,
		"rule":                         ps.Rule,
		"samples":                      samples,
		"states":                       nstates,
		"simulated_runs":               agg.Runs,
		"simulated_events":             agg.Events,
		"calls_judged":                 agg.Calls,
		"runs_per_hour":                int(float64(agg.Runs) / wall * 3600),
		"seeds":                        fmt.Sprintf("%d..%d", seed*10_000_000, seed*10_000_000+int64(agg.Runs)-1),
		"simulated_time":               fmt.Sprintf("logical: %d events, %d epoch notifications (no wall-clock time exists in the code under test)", agg.Events, agg.EpochEvs),
		"faults_fired":                 agg.Faults,
		"fault_kinds_injected":         ps.Faults,
		"probes_hit":                   agg.Probes,
		"dependency_calls":             depCalls,
		"outcome_matrix":               agg.Outcome,
		"distinct_states_measure":      "FNV-1a hash of the canonical (sorted) content of all shard stores plus the in-flight pool, taken after every event",
		"codec_values_checked":         agg.Distinct,
		"parser_comparisons":           agg.Parser,
		"schedules_accepted":           agg.SchedAcc,
		"schedules_rejected":           agg.SchedRej,
		"aborted_by_foreign_violation": agg.Foreign,
		"coverage_holes":               holes,
		"real_vs_stub":                 "real: builtInFunctions (factory, container, all 23 functions), parsers, txDataBuilder, atomic, check, data/esdt protobuf codec; stub: account store/journal, coordinator, epoch notifier, payability table, transport, system contract, node pipeline",
	}
	ev := map[string]interface{}{
		"property_id": ps.ID,
		"tier":        tier,
		"seed":        seed,
		"level":       ps.Level,
		"coverage":    cov,
		"assumptions": append(append([]string{}, commonAssumptions...), ps.Assume...),
		"wall_s":      wall,
		"violations":  nviol,
	}
	_ = os.MkdirAll(filepath.Join(verifDir, "evidence"), 0o755)
	path := filepath.Join(verifDir, "evidence", ps.ID+".json")
	if archStage != "" {
		// second stage: add to what the first stage wrote
		var first map[string]interface{}
		if old, err := os.ReadFile(path); err == nil && json.Unmarshal(old, &first) == nil {
			if c, ok := first["coverage"].(map[string]interface{}); ok {
				c["second_stage_32bit_build"] = map[string]interface{}{
					"what":             "the same seeded histories (a prefix of the first stage's seeds) executed by a " + runtime.GOARCH + " build of checker and library: int, uint and pointers are 32 bits wide, so arithmetic that silently depends on the word size diverges from the oracle (which computes in uint64 and big integers)",
					"simulated_runs":   agg.Runs,
					"simulated_events": agg.Events,
					"calls_judged":     agg.Calls,
					"distinct_states":  nstates,
					"faults_fired":     agg.Faults,
					"wall_s":           wall,
					"violations":       nviol,
				}
				if w0, ok := first["wall_s"].(float64); ok {
					first["wall_s"] = w0 + wall
				}
				if v0, ok := first["violations"].(float64); ok {
					first["violations"] = int(v0) + nviol
				}
				if b, err := json.MarshalIndent(first, "", " "); err == nil {
					_ = os.WriteFile(path, b, 0o644)
					return
				}
			}
		}
		fmt.Fprintln(os.Stderr, "HARNESS TROUBLE: the first stage left no evidence file to extend")
		os.Exit(2)
	}
	b, _ := json.MarshalIndent(ev, "", " ")
	_ = os.WriteFile(path, b, 0o644)
}

var _ = spec.P
