#!/bin/bash
# tryall.sh <patch.diff> [<prop> ...]  applies the patch, runs the ALL smoke mix (any property) and then the named checks, reverts.
PATCH=$1; shift
cd /repo || exit 2
if ! git diff --quiet; then echo "/repo is dirty; refusing" >&2; exit 2; fi
git apply "$PATCH" || { echo "patch does not apply" >&2; exit 2; }
trap 'git -C /repo checkout -- . ; (cd /verif/sim && go build -o /verif/bin/vcheck ./cmd/vcheck)' EXIT  # leave no checker binary behind that was built with the change
export GOFLAGS=-mod=mod GOPROXY=off GOSUMDB=off GOTOOLCHAIN=local
(cd /verif/sim && go build -o /verif/bin/vcheck ./cmd/vcheck) || { echo "BUILD FAILED"; exit 2; }
OUT=$(/verif/bin/vcheck -prop ALL -verif /tmp 2>&1); rc=$?
echo "ALL rc=$rc: $(echo "$OUT" | grep -m2 '^violation' | cut -c1-260 | tr '\n' ' ')"
ID=$(basename $(dirname "$PATCH"))
for P in "$@"; do
  OUT=$(cd /verif && ./check $P quick 2>&1); rc=$?
  RES=MISSED; [ $rc -eq 1 ] && RES=CAUGHT; [ $rc -ge 2 ] && RES=TROUBLE
  echo "$P $RES: $(echo "$OUT" | grep -m1 '^violation' | cut -c1-260)"
  if [ -f /verif/seeded/$ID/meta.json ]; then
    python3 - "$ID" "$P" "$RES" "$(echo "$OUT" | grep -m1 '^violation' | cut -c1-400)" <<'PY'
import json,sys
id_,p,res,line=sys.argv[1:5]
f=f"/verif/seeded/{id_}/meta.json"; m=json.load(open(f))
m.setdefault("checks",{})[p]={"quick":res,"first_violation":line,"ran":f"git -C /repo apply patch.diff; ./check {p} quick; git -C /repo checkout -- ."}
json.dump(m,open(f,"w"),indent=1)
PY
  fi
done
