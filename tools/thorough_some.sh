#!/bin/bash
# thorough_some.sh <seed> <id>...   thorough tier of the named checks against /repo, evidence copies under evidence/thorough/
VERIF=$(dirname "$(dirname "$(readlink -f "$0")")")
SEED=$1; shift
mkdir -p $VERIF/evidence/thorough
LOG=$VERIF/evidence/thorough/log2.txt
echo "thorough tier (second pass, selected checks), VERIF_SEED=$SEED, $(date -u +%FT%TZ), repo $(git -C /repo rev-parse --short HEAD), verif $(git -C $VERIF rev-parse --short HEAD)" >> $LOG
for p in "$@"; do
  echo "=== $p $(date -u +%T)" >> $LOG
  (cd $VERIF && VERIF_SEED=$SEED ./check $p thorough) >> $LOG 2>&1
  rc=$?
  echo "rc=$rc" >> $LOG
  [ $rc -eq 0 ] && [ -f $VERIF/evidence/$p.json ] && cp $VERIF/evidence/$p.json $VERIF/evidence/thorough/$p.json
done
echo "=== done $(date -u +%T)" >> $LOG
