#!/bin/bash
# trymutant.sh <patch.diff> <prop> [<prop> ...]   applies the patch to /repo, runs the quick checks, reverts.
# Prints one line per property: CAUGHT / MISSED / TROUBLE.
PATCH=$1; shift
cd /repo || exit 2
if ! git diff --quiet; then echo "/repo is dirty; refusing" >&2; exit 2; fi
git apply "$PATCH" || { echo "patch does not apply" >&2; exit 2; }
trap 'git -C /repo checkout -- . ' EXIT
ID=$(basename $(dirname "$PATCH"))
for P in "$@"; do
  OUT=$(cd /verif && ./check $P quick 2>&1); rc=$?
  if [ -f /verif/seeded/$ID/meta.json ]; then
    RES=MISSED; [ $rc -eq 1 ] && RES=CAUGHT; [ $rc -ge 2 ] && RES=TROUBLE
    python3 - "$ID" "$P" "$RES" "$(echo "$OUT" | grep -m1 '^violation' | cut -c1-400)" <<'PY'
import json,sys
id_,p,res,line=sys.argv[1:5]
f=f"/verif/seeded/{id_}/meta.json"; m=json.load(open(f))
m.setdefault("checks",{})[p]={"quick":res,"first_violation":line,"ran":f"git -C /repo apply patch.diff; ./check {p} quick; git -C /repo checkout -- ."}
json.dump(m,open(f,"w"),indent=1)
PY
  fi
  if [ $rc -eq 1 ] && echo "$OUT" | grep -q "^VIOLATION property=$P"; then
    echo "$P CAUGHT: $(echo "$OUT" | grep -m1 '^violation' | cut -c1-300)"
  elif [ $rc -eq 0 ]; then echo "$P MISSED ($(echo "$OUT" | tail -1 | cut -c1-200))"
  else echo "$P TROUBLE rc=$rc: $(echo "$OUT" | tail -3 | cut -c1-300)"; fi
done
