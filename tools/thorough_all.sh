#!/bin/bash
# thorough_all.sh [seed]   runs the thorough tier of every claimed check against /repo, one after the
# other, and keeps a copy of each evidence file under evidence/thorough/ (the quick tier rewrites
# evidence/<id>.json on its next run). Log: evidence/thorough/log.txt
VERIF=$(dirname "$(dirname "$(readlink -f "$0")")")
SEED=${1:-3}
mkdir -p $VERIF/evidence/thorough
LOG=$VERIF/evidence/thorough/log.txt
echo "thorough tier, VERIF_SEED=$SEED, $(date -u +%FT%TZ), repo $(git -C /repo rev-parse --short HEAD), verif $(git -C $VERIF rev-parse --short HEAD)" > $LOG
for p in C01 C02 C03 C04 C05 C06 C07 C08 C09 C10 C11 C12 C13 C14 C15 C16 C17 C18 C19; do
  echo "=== $p $(date -u +%T)" >> $LOG
  (cd $VERIF && VERIF_SEED=$SEED ./check $p thorough) >> $LOG 2>&1
  rc=$?
  echo "rc=$rc" >> $LOG
  [ -f $VERIF/evidence/$p.json ] && cp $VERIF/evidence/$p.json $VERIF/evidence/thorough/$p.json
done
echo "=== done $(date -u +%T)" >> $LOG
