#!/usr/bin/env python3
# Generates /verif/MANIFEST.json (kept under version control; regenerate after editing this file).
import json, sys

CONC_READY = "--with-c19" in sys.argv

world = {
 "C01": ("exploration", "§5 C01", "Seeded search over multi-shard histories (transfers, deliveries in arbitrary order, refusals with refunds, stale pause/freeze state, dependency faults with rollback, restarts). Every call is judged by an explained-diff oracle over the whole shard state, the supply equation (balances on all shards + undelivered transfers = minted - burnt, per storage key) is evaluated after every event, and continuations/refunds must be accepted. Evidence, not proof: conservation is a property of histories, which only sampling of histories with an exact oracle can reach.",
         "Trusts the stub node pipeline, transport conventions (continuation caller, refund construction) and the system-contract model listed in the evidence assumptions; silent cases (zero quantities, >8-byte numbers, same-shard copy gas) accept both readings."),
 "C02": ("exploration", "§5 C02", "Seeded histories heavy in mint/burn/create/add-quantity/NFT-burn/wipe with amounts drawn relative to the current holding (incl. holding, holding+1, 2^64-1, 2^64, 100/101-byte values). The oracle compares the pre-call holding with the amount (forbidden success on overdraft), checks exact post-balances with its own decoder and keeps a ghost supply per key.",
         "Same trusted stubs as C01; amounts longer than 100 bytes in mint and quantity 0 are silent cases."),
 "C03": ("exploration", "§5 C03", "Seeded histories in which role set/unset/hand-over control messages race the operations they authorise; every role-gated function is called by holders of arbitrary role subsets and for other tokens, control functions by users/contracts/DNS addresses, owner/DNS functions by owners, ex-owners and strangers. Authority is decided from the oracle-decoded role list / owner field of the pre-state; a success without it is a violation, and a failed call must leave the world unchanged.",
         "System-contract discipline as listed in the evidence assumptions; hand-over message caller convention."),
 "C04": ("exploration", "§5 C04", "Seeded histories interleaving per-shard, independently delayed freeze/unfreeze/pause/unpause/wipe control messages with every balance-changing function on both execution sides; forbidden-success oracle on the decoded frozen flag / pause flag of the executing shard with exactly the exemptions the statement names; freeze/unfreeze may change the flag bit only.",
         "Freeze is judged on the entry a function touches (a frozen flag on the fungible key does not block NFT entries: silent case)."),
 "C05": ("exploration", "§5 C05", "The explained diff is an exact changed-set check over the complete state of the executing shard, so the frame condition is asserted for every call of every explored history (all properties' runs); this check adds SaveKeyValue-heavy histories with keys of every prefix relation to ELROND including live token/role/counter keys, contract callers and foreign recipients.",
         "Trusts the oracle's per-function contracts (second implementation written from the property statements)."),
 "C06": ("exploration", "§5 C06", "Per-call gas invariant (GasRemaining + forwarded <= GasProvided; below the charge the call fails or keeps nothing) on every call of every history, both sides, with adversarial gas values and gas-sweep forks: sampled calls are re-executed from a snapshot with 0, charge-1, charge, charge+1, 2^63, 2^64-1. The simulation contributes destination-side executions, no-op shapes and the states in which they occur.",
         "Charges are computed from the schedule the shard last accepted; costs are 32-bit."),
 "C07": ("exploration", "§5 C07", "Seeded histories of create / burn / transfer away / hand-over (same shard, cross shard, message delayed, message redelivered later) / create again. Oracle: returned nonce = previous counter + 1, ghost set of issued (token, nonce) has no repeats, counter held with the create role never below the highest issued nonce (checked after every event), old holder loses role and counter.",
         "Single-creator discipline; duplicates of a hand-over message are injected only while the addressee still is the holder (a stale duplicate after a later hand-over is outside the discipline)."),
 "C08": ("exploration", "§5 C08", "Seeded histories of creates with boundary metadata and chains of single/multi, same-/cross-shard hops with AddURI/UpdateAttributes in between; the oracle decodes sender-before, payload-in-flight and destination-after with its own protobuf reader and compares all metadata fields, the create log topic with the stored bytes, and requires refusal on hash mismatch. Production codec end to end.",
         "SFT merge with equal hash but diverged URIs/attributes: incoming or previous metadata accepted (silent case); royalties argument > 10000: refusal or any recorded value <= 10000."),
 "C09": ("exploration", "§5 C09", "Seeded histories of transfers to payable / non-payable / erroring contracts, users, metachain, self and wrong-length addresses with all call types and attached calls, both sides; forbidden successes are computed from the simulator's own payability table, not from the handler the functions query.",
         "Contracts that are not payable send cross-shard only through asynchronous calls (else the refund C01 demands is forbidden by C09)."),
 "C10": ("exploration", "§5 C10", "On every emitted message and every accepted transfer call of every history: the real call-arguments parser must read the emitted data exactly as the explained diff expects, the destination shard must accept continuations, and the real ESDT-transfer parser's report (receiver, tokens, nonces, values, attached call) must equal what the ledger debited/credited. Second stage (concurrency engine, workload 'parse'): the parsers are objects their users share between goroutines; 2-8 simulated tasks parse through one shared instance of each parser under seeded statement-level interleavings (plain and race-enabled) and every report must equal the report of a fresh instance.",
         "Attached function names that are empty or contain '@' are outside the wire clause (C12's premise)."),
 "C11": ("exploration", "§5 C11", "Every call of every history runs under recover with result-shape and allocation checks; this check's histories are dominated by adversarial transactions (0..12 arguments from the adversarial pools: wrap-around residues, aliasing identifiers, 8/9-byte numbers, 31/33-byte addresses) against states reached through real calls, with transaction-reachable account-presence patterns and protocol-generated destination-side inputs.",
         "Transaction receivers are 32-byte addresses (interceptor rule); destination-side inputs are only those real sender-side executions produce."),
 "C12": ("exploration", "§5 C12 (reduced scope)", "REDUCED SCOPE: decided on simulated traffic only. Every transaction string (built with the real builder), every emitted message and fault-corrupted copies of both go through the real call-args, ESDT-transfer, deploy and storage-update parsers under recover and are compared with the documented grammar; the ESDT-transfer parser is run on every call that reaches a node. The exhaustive enumeration of all short strings in the quantifier is a different technique and is not attempted.",
         "Only strings that occur as (corrupted) traffic are explored."),
 "C13": ("exploration", "§5 C13", "Sampled calls of seeded histories are executed four times from equal snapshots (same function objects twice, another goroutine, freshly built container) and the canonical serialisation of (output, post-state) is compared; every call's arguments sit in one buffer with spare capacity and canary bytes and the whole input is compared after the call; whole runs are re-executed across processes in the determinism self-test.",
         "Canonical serialisation sorts map-typed output fields (OutputAccounts, StorageUpdates) and keeps list order (Logs, ReturnData, OutputTransfers)."),
 "C14": ("exploration", "§5 C14 (reduced scope)", "REDUCED SCOPE: every value that simulated histories store or ship is compared at the Marshalizer seam with an independent encoder of the documented wire format (fields 1-5 / 1 / 1-7, sign byte + big-endian magnitude), with Size(), a second Marshal and Unmarshal(Marshal(x)); stored values hit by corruption faults are decoded under recover. Negative amounts and exhaustive small-buffer enumeration are not attempted.",
         "Only values reachable through built-in calls are explored."),
 "C15": ("exploration", "§5 C15", "Long seeded random walks (150-400 events) with all operation and fault kinds; after every event every account on every shard is scanned with the oracle's own decoder: key layouts, decodability, positive balances (zero only with frozen flag), metadata nonce matches key, no duplicate roles, create counter >= highest issued nonce, supply equation.",
         "System-contract discipline (no duplicate role grants); bounded-depth exhaustive enumeration of sequences is not attempted (sampling only)."),
 "C16": ("exploration", "§5 C16", "Seeded histories of accepted and rejected schedule changes per shard (pairwise distinct entries; zero or missing entry in either sub-map), restarts, and charging-side executions of all priced functions with varied argument sizes; the charge of every successful call is compared with the simulator's own reading of the schedule that shard last accepted.",
         "Same-shard NFT transfers: copy-gas component accepted with or without (silent case); ESDTNFTChangeCreateOwner is priced by the schedule but used by no function."),
 "C17": ("fault_enumeration", "§5 C17", "For sampled successful calls of seeded histories (all functions, both sides) the call is executed once on a snapshot to count its dependency calls per kind and then once per (kind, k) with the k-th call failing: every fault point of the scenario is enumerated. A hard dependency failure followed by an Ok result is a violation; fail-soft kinds (storage read, pause lookup) are injected for totality only.",
         "Enumeration is of fault points per scenario; scenarios themselves are sampled."),
 "C18": ("exploration", "§5 C18", "Clock scripts (regressions, repeats, jumps, 0 and 2^32-1) on the stub epoch notifier inside seeded histories, restarts included; IsActive of all 23 registered functions is compared with the model after every notification and restart; container.Keys()/Len() must be exactly the 23 protocol names; every call of every history goes through container.Get(name) and is judged by the contract of that name, so a mis-bound name shows as a contract violation.",
         "The notifier confirms the current epoch at registration (as elrond-go's does)."),
}

checks = []
for pid in sorted(world):
    lvl, ref, text, note = world[pid]
    checks.append({
        "property_id": pid,
        "quick_cmd": f"./check {pid} quick",
        "thorough_cmd": f"./check {pid} thorough",
        "evidence_file": f"/verif/evidence/{pid}.json",
        "replay_cmd_template": f"./check {pid} --replay {{path}}",
        "engine": "E-world",
        "level_claimed": {"category": lvl, "text": text, "design_ref": "DESIGN.md " + ref},
        "level_note": note,
        "technique": "deterministic simulation with fault injection: seeded multi-shard world simulation (real built-in functions on stub stores/transport), relational oracle + invariants, ddmin-minimised replay files; a second stage re-runs a prefix of the seeds on a 32-bit (GOARCH=386) build of checker and library" if pid != "C17" else "deterministic simulation with fault injection: dependency fault-point enumeration on snapshots of simulated histories",
    })

na = [{"property_id": "C20", "reason": "pure functions of their input (byte pairs, addresses, pairs of output accounts, two integers): no schedule, clock, fault, interleaving or history for a simulation to decide; per the brief answered not-applicable rather than dressed as simulation (MergeOutputAccounts is on no simulated path)"}]

if CONC_READY:
    checks.append({
        "property_id": "C19",
        "quick_cmd": "./check C19 quick",
        "thorough_cmd": "./check C19 thorough",
        "evidence_file": "/verif/evidence/C19.json",
        "replay_cmd_template": "./check C19 --replay {path}",
        "engine": "E-conc",
        "level_claimed": {"category": "exploration", "text": "Deterministic concurrency simulation: container, atomic and builtInFunctions are copied from the working tree and rewritten (yield before every statement, sync/sync-atomic replaced by yielding wrappers); a seeded scheduler decides which of 2-16 tasks runs at every yield. Histories of container/MutexMap and atomic operations are checked for linearizability with porcupine against sequential models; executions overlapping gas-schedule changes must be charged wholly by one schedule in force; the race detector runs under the same deterministic schedule (the hand-off is invisible to it), so a reported race replays; deadlock is detected; every executing task, which works on accounts and tokens of its own, is compared call by call and account by account with its own plan run alone through the same function objects (isolation: refinement against the sequential execution), and operations that must be refused (destination not payable, frozen entry, paused token) must be refused under every interleaving.", "design_ref": "DESIGN.md §2.3, §5 C19"},
        "level_note": "Explores interleavings at statement granularity of the three rewritten packages (not inside the Go runtime or third-party code); sampling of schedules, not enumeration.",
        "technique": "deterministic simulation: seeded statement-level scheduler over an AST-instrumented copy, porcupine linearizability checking, race detector under the deterministic schedule, per-task refinement against the sequential execution of the same plan",
    })
else:
    na.append({"property_id": "C19", "reason": "not claimed yet: the concurrency engine (E-conc, DESIGN.md §2.3) is under construction in this session; will be claimed when it runs"})

manifest = {
    "version": 1,
    "setup_cmd": "./setup.sh",
    "hooks": {
        "guard": "verif",
        "enable": "no hooks are needed: every seam is an existing interface of the repository and the concurrency yields are inserted into a scratch copy at check time; the guard name is reserved and unused",
        "baseline_off_cmd": "cd /repo && GOFLAGS=-mod=mod GOPROXY=off GOSUMDB=off go test -vet=off -count=1 -timeout 25m ./...",
        "source_commits": [],
        "add_only": True,
    },
    "engines": [
        {"name": "E-world", "path": "/verif/sim", "serves_properties": sorted(world), "kind_free_text": "seeded deterministic multi-shard world simulation with fault injection (Go, module verifsim, replace => /repo): world/ (store, codec seam, nodes from the real factory, pipeline, transport, system-contract model, probes), spec/ (oracle: independent codec, per-function contracts, invariants), gen/ (seeded scheduler and generators), cmd/vcheck (batches in worker processes, ddmin, replay, evidence)"},
        {"name": "E-conc", "path": "/verif/conc", "serves_properties": ["C19"], "kind_free_text": "deterministic concurrency scheduler over an AST-rewritten scratch copy of container/atomic/builtInFunctions/parsers; porcupine; race detector; mode 'parse' (shared parser instances) is the last stage of the check of C10"},
    ],
    "checks": checks,
    "not_applicable": na,
    "notes": "Checks rebuild from /repo's working tree on every invocation (go build with replace => /repo; C19 copies and rewrites the tree). Every world check has two stages (amd64 build, then a fraction of the same seeds on a GOARCH=386 build; a replay file names its architecture and ./check <id> --replay picks the build); C10 has a third (shared parser instances under the concurrency engine). Exit 0 held / 1 violation with VIOLATION line / 2 harness, build, watchdog or coverage-hole trouble. Genuine defects found by the checks on the pinned tree were repaired in 'fix:' commits and are listed as fixed in known_findings.json; their replay files are kept under /verif/findings.",
}
json.dump(manifest, open("/verif/MANIFEST.json", "w"), indent=1)
print("wrote MANIFEST.json with", len(checks), "checks")
