#!/bin/bash
# vetmutant.sh <agent worktree> <m1|m2> <seeded id> <property>
# Confirms a seeded change independently in a fresh scratch worktree: existing suite passes with the change,
# the demonstration passes without it and fails with it. Then stores it under /verif/seeded/<id>/.
set -u
export GOFLAGS=-mod=mod GOPROXY=off GOSUMDB=off GOTOOLCHAIN=local
WT=$1; M=$2; ID=$3; PROP=$4
SRC=$WT/SEEDED/$M
[ -f $SRC/patch.diff ] || { echo "no patch in $SRC"; exit 2; }
DEMO=$(ls $SRC/*_test.go 2>/dev/null | head -1)
[ -n "$DEMO" ] || { echo "no demo test in $SRC"; exit 2; }
PKG=$(grep -m1 '^package ' $DEMO | awk '{print $2}' | sed 's/_test$//')
case $PKG in builtInFunctions|parsers|container|atomic|check|data|txDataBuilder) DIR=$PKG;; esdt) DIR=data/esdt;; vmcommon) DIR=.;; *) DIR=builtInFunctions;; esac
V=/tmp/vet-$ID; rm -rf $V; git -C /repo worktree add -q --detach $V ${VETBASE:-HEAD} || exit 2
trap "git -C /repo worktree remove --force $V" EXIT
cd $V
cp $DEMO $DIR/zz_demo_test.go
go test ${DEMOFLAGS:-} -vet=off -count=1 ./$DIR/ >/tmp/vet-$ID.without 2>&1; W0=$?
rm $DIR/zz_demo_test.go
git apply $SRC/patch.diff || { echo "patch does not apply"; exit 2; }
go build ./... || { echo "does not compile"; exit 2; }
go test -vet=off -count=1 ./... >/tmp/vet-$ID.suite 2>&1; S=$?
cp $DEMO $DIR/zz_demo_test.go
go test ${DEMOFLAGS:-} -vet=off -count=1 ./$DIR/ >/tmp/vet-$ID.with 2>&1; W1=$?
echo "$ID: demo without change rc=$W0 (want 0); suite with change rc=$S (want 0); demo with change rc=$W1 (want !=0)"
if [ $W0 -eq 0 ] && [ $S -eq 0 ] && [ $W1 -ne 0 ]; then
  mkdir -p /verif/seeded/$ID
  cp $SRC/patch.diff /verif/seeded/$ID/patch.diff
  cp $DEMO /verif/seeded/$ID/demo_test.go
  cp $SRC/README.md /verif/seeded/$ID/README.md 2>/dev/null
  python3 - "$ID" "$PROP" "$DIR" <<'PY'
import json,sys
id_,prop,d=sys.argv[1:4]
json.dump({"id":id_,"breaks_property":prop,"demo_package_dir":d,
 "confirmed":{"existing_suite_with_change":"pass (go test -vet=off -count=1 ./...)","demo_without_change":"pass","demo_with_change":"FAIL",
  "how":"fresh scratch worktree of /repo HEAD; demo copied to <dir>/zz_demo_test.go; go test -vet=off -count=1 ./<dir>/"},
 "needs_to_manifest":"see README.md (written by the sub-agent that produced the change)","checks":{}}, open(f"/verif/seeded/{id_}/meta.json","w"), indent=1)
PY
  echo "$ID CONFIRMED"
else
  echo "$ID NOT CONFIRMED"; for f in /tmp/vet-$ID.without /tmp/vet-$ID.suite /tmp/vet-$ID.with; do echo "--- $f"; tail -n 5 $f; done
fi
