#!/bin/bash
# run.sh quick|thorough <seed> [<workload mode> <property>]   |   run.sh replay <file>
# Concurrency engine: copies /repo's working tree, rewrites container/atomic/builtInFunctions/parsers,
# builds the harness with and without -race, runs seeded batches in single-P worker processes.
# Default: workload mode "all" for property C19. "parse C10" is the shared-parser workload that the
# check of C10 runs after its world simulation.
set -u
export GOFLAGS=-mod=mod GOPROXY=off GOSUMDB=off GOTOOLCHAIN=local
VERIF=$(dirname "$(dirname "$(readlink -f "$0")")")
MODE=${1:-quick}
SEED=${2:-1}
KMODE=${3:-all}
CPROP=${4:-C19}
START=$(date +%s.%N)
SCRATCH=$(mktemp -d "${TMPDIR:-/tmp}/verif-conc-XXXXXX") || { echo "cannot create scratch dir" >&2; exit 2; }
trap 'rm -rf "$SCRATCH"' EXIT
mkdir -p $VERIF/bin $VERIF/evidence $VERIF/replays
(cd $VERIF/conc/instrument && go build -o $VERIF/bin/instrument .) || { echo "BUILD FAILED: instrumenter" >&2; exit 2; }
$VERIF/bin/instrument "${VERIF_REPO:-/repo}" "$SCRATCH/src" $VERIF/conc/rt $VERIF/conc/harness > "$SCRATCH/instrument.log" 2>&1 || { cat "$SCRATCH/instrument.log" >&2; echo "INSTRUMENTATION FAILED (exit 2)" >&2; exit 2; }
SITES=$(grep -o '[0-9]* yield sites' "$SCRATCH/instrument.log" | cut -d' ' -f1)
(cd "$SCRATCH/src" && go build -o "$SCRATCH/concrun" ./zz_sim/concrun) > "$SCRATCH/build.log" 2>&1 || { cat "$SCRATCH/build.log" >&2; echo "BUILD FAILED (exit 2)" >&2; exit 2; }
(cd "$SCRATCH/src" && go build -race -o "$SCRATCH/concrun-race" ./zz_sim/concrun) > "$SCRATCH/build-race.log" 2>&1 || { cat "$SCRATCH/build-race.log" >&2; echo "BUILD FAILED (race) (exit 2)" >&2; exit 2; }

if [ "$MODE" = replay ]; then
  FILE=${2:-}
  if grep -q '"race": *true' "$FILE"; then BIN="$SCRATCH/concrun-race"; else BIN="$SCRATCH/concrun"; fi
  GOMAXPROCS=1 GORACE="halt_on_error=1 exitcode=66" "$BIN" -replay "$FILE"
  rc=$?
  RPROP=$(grep -o '"property": *"C[0-9]*"' "$FILE" | head -1 | grep -o 'C[0-9]*'); RPROP=${RPROP:-C19}
  if [ $rc -eq 66 ]; then echo "race reproduced"; echo "VIOLATION property=$RPROP replay=$FILE"; exit 1; fi
  if [ $rc -eq 3 ]; then echo "deadlock reproduced"; echo "VIOLATION property=$RPROP replay=$FILE"; exit 1; fi
  exit $rc
fi

case "$MODE" in
  quick)    NPLAIN=48000; NRACE=16000;;
  thorough) NPLAIN=4000000; NRACE=1200000;;
  *) echo "unknown tier $MODE" >&2; exit 2;;
esac
if [ "$KMODE" = parse ]; then NPLAIN=$((NPLAIN / 4)); NRACE=$((NRACE / 4)); fi
CONC_MODE=$KMODE CONC_PROP=$CPROP VERIF=$VERIF python3 $VERIF/conc/drive.py "$SCRATCH" "$MODE" "$SEED" "$NPLAIN" "$NRACE" "$SITES" "$START"
