// instrument copies a source tree of elrond-vm-common and rewrites the packages container, atomic
// and builtInFunctions for the deterministic concurrency scheduler:
//   - a call zzsim.Yield(site) before every statement of every function body,
//   - import "sync" -> <module>/zz_sim/simsync (named sync), "sync/atomic" -> <module>/zz_sim/simatomic (named atomic).
// The runtime packages and the harness are copied into <dst>/zz_sim. go/ast only (no type information needed);
// it refuses to continue if a rewritten file still mentions the real sync packages or starts goroutines.
//
// usage: instrument <src tree> <dst tree> <rt dir> <harness dir>
package main

import (
	"bytes"
	"fmt"
	"go/ast"
	"go/importer"
	"go/parser"
	"go/printer"
	"go/token"
	"go/types"
	"io"
	"os"
	"path/filepath"
	"strconv"
	"strings"
)

const modPath = "github.com/ElrondNetwork/elrond-vm-common"

var rewritePkgs = []string{"container", "atomic", "builtInFunctions", "parsers"}

var siteCount int
var fileCount int

func fatal(format string, a ...interface{}) {
	fmt.Fprintf(os.Stderr, "instrument: "+format+"\n", a...)
	os.Exit(2)
}

func copyFile(src, dst string) {
	in, err := os.Open(src)
	if err != nil {
		fatal("%v", err)
	}
	defer in.Close()
	if err := os.MkdirAll(filepath.Dir(dst), 0o755); err != nil {
		fatal("%v", err)
	}
	out, err := os.Create(dst)
	if err != nil {
		fatal("%v", err)
	}
	defer out.Close()
	if _, err := io.Copy(out, in); err != nil {
		fatal("%v", err)
	}
}

func copyTree(src, dst string, skip func(rel string, d os.DirEntry) bool) {
	err := filepath.WalkDir(src, func(p string, d os.DirEntry, err error) error {
		if err != nil {
			return err
		}
		rel, _ := filepath.Rel(src, p)
		if rel == "." {
			return nil
		}
		if skip != nil && skip(rel, d) {
			if d.IsDir() {
				return filepath.SkipDir
			}
			return nil
		}
		if d.IsDir() {
			return os.MkdirAll(filepath.Join(dst, rel), 0o755)
		}
		if !d.Type().IsRegular() {
			return nil
		}
		copyFile(p, filepath.Join(dst, rel))
		return nil
	})
	if err != nil {
		fatal("copy: %v", err)
	}
}

func yieldStmt() ast.Stmt {
	siteCount++
	return &ast.ExprStmt{X: &ast.CallExpr{
		Fun:  &ast.SelectorExpr{X: ast.NewIdent("zzsim"), Sel: ast.NewIdent("Yield")},
		Args: []ast.Expr{&ast.BasicLit{Kind: token.INT, Value: strconv.Itoa(siteCount)}},
	}}
}

var typeInfo *types.Info
var mapRanges int
var tmpCount int

func isMapRange(r *ast.RangeStmt) bool {
	if typeInfo == nil {
		return false
	}
	tv, ok := typeInfo.Types[r.X]
	if !ok || tv.Type == nil {
		return false
	}
	_, isMap := tv.Type.Underlying().(*types.Map)
	return isMap
}

func isBlank(e ast.Expr) bool {
	id, ok := e.(*ast.Ident)
	return e == nil || ok && id.Name == "_"
}

// orderedMapRange rewrites "for k, v := range m { body }" into an iteration over the sorted keys,
// so that Go's randomised map iteration order cannot influence the schedule (replay needs it).
func orderedMapRange(r *ast.RangeStmt) ast.Stmt {
	tmpCount++
	mapRanges++
	mv := ast.NewIdent(fmt.Sprintf("zzm%d", tmpCount))
	kv := ast.NewIdent(fmt.Sprintf("zzk%d", tmpCount))
	var pre []ast.Stmt
	if !isBlank(r.Key) {
		pre = append(pre, &ast.AssignStmt{Lhs: []ast.Expr{r.Key}, Tok: r.Tok, Rhs: []ast.Expr{kv}})
	}
	if !isBlank(r.Value) {
		pre = append(pre, &ast.AssignStmt{Lhs: []ast.Expr{r.Value}, Tok: r.Tok, Rhs: []ast.Expr{&ast.IndexExpr{X: mv, Index: kv}}})
	}
	body := &ast.BlockStmt{List: append(pre, r.Body.List...)}
	loop := &ast.RangeStmt{Key: ast.NewIdent("_"), Value: kv, Tok: token.DEFINE,
		X:    &ast.CallExpr{Fun: &ast.SelectorExpr{X: ast.NewIdent("zzsim"), Sel: ast.NewIdent("SortedKeys")}, Args: []ast.Expr{mv}},
		Body: body}
	return &ast.BlockStmt{List: []ast.Stmt{
		&ast.AssignStmt{Lhs: []ast.Expr{mv}, Tok: token.DEFINE, Rhs: []ast.Expr{r.X}},
		loop,
	}}
}

func withYields(list []ast.Stmt) []ast.Stmt {
	out := make([]ast.Stmt, 0, 2*len(list))
	for _, s := range list {
		if r, ok := s.(*ast.RangeStmt); ok && isMapRange(r) {
			s = orderedMapRange(r)
		}
		if l, ok := s.(*ast.LabeledStmt); ok {
			if r, ok := l.Stmt.(*ast.RangeStmt); ok && isMapRange(r) {
				fatal("labeled range over a map: not supported by the instrumenter")
			}
		}
		out = append(out, yieldStmt(), s)
	}
	return out
}

func rewriteFile(path string, fset *token.FileSet, f *ast.File) {
	// keep only comments that precede the package clause (none of these packages use directives)
	var keep []*ast.CommentGroup
	for _, cg := range f.Comments {
		if cg.End() < f.Package {
			keep = append(keep, cg)
		}
		for _, c := range cg.List {
			if strings.HasPrefix(c.Text, "//go:") && !strings.HasPrefix(c.Text, "//go:build") || strings.HasPrefix(c.Text, "// +build") {
				fatal("%s carries a compiler directive %q: the instrumenter does not preserve directives", path, c.Text)
			}
		}
	}
	f.Comments = keep
	for _, imp := range f.Imports {
		p, _ := strconv.Unquote(imp.Path.Value)
		switch p {
		case "sync":
			imp.Path.Value = strconv.Quote(modPath + "/zz_sim/simsync")
			if imp.Name == nil {
				imp.Name = ast.NewIdent("sync")
			}
		case "sync/atomic":
			imp.Path.Value = strconv.Quote(modPath + "/zz_sim/simatomic")
			if imp.Name == nil {
				imp.Name = ast.NewIdent("atomic")
			}
		}
		imp.Doc, imp.Comment = nil, nil
	}
	skip := map[*ast.BlockStmt]bool{}
	ast.Inspect(f, func(n ast.Node) bool {
		switch x := n.(type) {
		case *ast.SwitchStmt:
			skip[x.Body] = true
		case *ast.TypeSwitchStmt:
			skip[x.Body] = true
		case *ast.SelectStmt:
			skip[x.Body] = true
		case *ast.GoStmt:
			fatal("%s starts a goroutine at %v: tasks unknown to the scheduler would break determinism", path, fset.Position(x.Pos()))
		case *ast.BlockStmt:
			if !skip[x] {
				x.List = withYields(x.List)
			}
		case *ast.CaseClause:
			x.Body = withYields(x.Body)
		case *ast.CommClause:
			x.Body = withYields(x.Body)
		case *ast.FuncDecl:
			x.Doc = nil
		case *ast.GenDecl:
			x.Doc = nil
		case *ast.Field:
			x.Doc, x.Comment = nil, nil
		case *ast.ValueSpec:
			x.Doc, x.Comment = nil, nil
		case *ast.TypeSpec:
			x.Doc, x.Comment = nil, nil
		}
		return true
	})
	// add the runtime import and a use of it
	imp := &ast.ImportSpec{Name: ast.NewIdent("zzsim"), Path: &ast.BasicLit{Kind: token.STRING, Value: strconv.Quote(modPath + "/zz_sim/simrt")}}
	decl := &ast.GenDecl{Tok: token.IMPORT, Specs: []ast.Spec{imp}}
	use := &ast.GenDecl{Tok: token.VAR, Specs: []ast.Spec{&ast.ValueSpec{Names: []*ast.Ident{ast.NewIdent("_")},
		Values: []ast.Expr{&ast.SelectorExpr{X: ast.NewIdent("zzsim"), Sel: ast.NewIdent("Yield")}}}}}
	// imports must come first
	var imports, rest []ast.Decl
	for _, d := range f.Decls {
		if g, ok := d.(*ast.GenDecl); ok && g.Tok == token.IMPORT {
			imports = append(imports, d)
		} else {
			rest = append(rest, d)
		}
	}
	f.Decls = append(append(append(imports, decl), use), rest...)
	var buf bytes.Buffer
	if err := (&printer.Config{Mode: printer.UseSpaces | printer.TabIndent, Tabwidth: 8}).Fprint(&buf, token.NewFileSet(), f); err != nil {
		fatal("print %s: %v", path, err)
	}
	out := buf.Bytes()
	if bytes.Contains(out, []byte("\"sync\"")) || bytes.Contains(out, []byte("\"sync/atomic\"")) {
		fatal("%s still imports the real sync packages after rewriting", path)
	}
	if err := os.WriteFile(path, out, 0o644); err != nil {
		fatal("%v", err)
	}
	fileCount++
}

func main() {
	if len(os.Args) != 5 {
		fatal("usage: instrument <src> <dst> <rt dir> <harness dir>")
	}
	src, dst, rt, harness := os.Args[1], os.Args[2], os.Args[3], os.Args[4]
	copyTree(src, dst, func(rel string, d os.DirEntry) bool {
		return rel == ".git" || strings.HasPrefix(rel, ".git"+string(filepath.Separator)) || rel == "zz_sim" || rel == "SEEDED"
	})
	// runtime and harness, with the module path filled in
	fill := func(from, to string) {
		copyTree(from, to, nil)
		_ = filepath.WalkDir(to, func(p string, d os.DirEntry, err error) error {
			if err != nil || d.IsDir() || !strings.HasSuffix(p, ".go") {
				return err
			}
			b, _ := os.ReadFile(p)
			b = bytes.ReplaceAll(b, []byte("SIMRT_IMPORT"), []byte(modPath+"/zz_sim/simrt"))
			b = bytes.ReplaceAll(b, []byte("MODPATH"), []byte(modPath))
			return os.WriteFile(p, b, 0o644)
		})
	}
	fill(rt, filepath.Join(dst, "zz_sim"))
	fill(harness, filepath.Join(dst, "zz_sim", "concrun"))
	// the harness needs porcupine
	gm, err := os.ReadFile(filepath.Join(dst, "go.mod"))
	if err != nil {
		fatal("%v", err)
	}
	// the runtime uses generics: raise the language version of the scratch copy (loop-variable
	// semantics only change at 1.22, so 1.20 keeps the code's meaning)
	for _, old := range []string{"go 1.13", "go 1.14", "go 1.15", "go 1.16", "go 1.17"} {
		gm = bytes.Replace(gm, []byte("\n"+old+"\n"), []byte("\ngo 1.20\n"), 1)
	}
	if !bytes.Contains(gm, []byte("anishathalye/porcupine")) {
		gm = append(gm, []byte("\nrequire github.com/anishathalye/porcupine v1.3.0\n")...)
		if err := os.WriteFile(filepath.Join(dst, "go.mod"), gm, 0o644); err != nil {
			fatal("%v", err)
		}
	}
	if err := os.Chdir(dst); err != nil {
		fatal("%v", err)
	}
	for _, pkg := range rewritePkgs {
		entries, err := os.ReadDir(filepath.Join(dst, pkg))
		if err != nil {
			fatal("%v", err)
		}
		fset := token.NewFileSet()
		var files []*ast.File
		var paths []string
		for _, e := range entries {
			n := e.Name()
			if e.IsDir() || !strings.HasSuffix(n, ".go") {
				continue
			}
			if strings.HasSuffix(n, "_test.go") {
				// the repository's tests are not part of the simulation
				_ = os.Remove(filepath.Join(dst, pkg, n))
				continue
			}
			p := filepath.Join(dst, pkg, n)
			f, err := parser.ParseFile(fset, p, nil, parser.ParseComments)
			if err != nil {
				fatal("parse %s: %v", p, err)
			}
			files = append(files, f)
			paths = append(paths, p)
		}
		// type information (only used to recognise range-over-map statements)
		typeInfo = &types.Info{Types: map[ast.Expr]types.TypeAndValue{}}
		var terrs []error
		conf := types.Config{Importer: importer.ForCompiler(fset, "source", nil), Error: func(e error) { terrs = append(terrs, e) }}
		_, _ = conf.Check(modPath+"/"+pkg, fset, files, typeInfo)
		if len(terrs) > 0 {
			fatal("type-checking %s failed (the tree does not compile?): %v", pkg, terrs[0])
		}
		for i, f := range files {
			rewriteFile(paths[i], fset, f)
		}
	}
	fmt.Printf("instrumented %d files, %d yield sites, %d map ranges ordered\n", fileCount, siteCount, mapRanges)
}
