module instrument

go 1.23
