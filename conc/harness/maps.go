package main

import (
	"fmt"
	"math/rand"
	"sort"
	"strings"

	"github.com/anishathalye/porcupine"

	vmcommon "MODPATH"
	"MODPATH/builtInFunctions"
	"MODPATH/container"

	simrt "SIMRT_IMPORT"
)

// fnStub is a distinguishable BuiltinFunction value for container histories.
type fnStub struct{ id int64 }

func (f *fnStub) ProcessBuiltinFunction(_, _ vmcommon.UserAccountHandler, _ *vmcommon.ContractCallInput) (*vmcommon.VMOutput, error) {
	return nil, nil
}
func (f *fnStub) SetNewGasConfig(_ *vmcommon.GasCost) {}
func (f *fnStub) IsActive() bool                      { return true }
func (f *fnStub) IsInterfaceNil() bool                { return f == nil }

// boxed is a map value of a type that cannot be compared with == (it holds a slice): the map is a map
// of interface{} values and must never compare them
type boxed struct {
	id  int64
	pad []byte
}

func unbox(v interface{}) int64 {
	switch x := v.(type) {
	case int64:
		return x
	case boxed:
		return x.id
	}
	return 0
}

// mapModel is the sequential specification of a map with Len/Keys/Values.
func mapModel() porcupine.Model {
	type st = map[string]int64
	render := func(m st) string {
		keys := make([]string, 0, len(m))
		for k := range m {
			keys = append(keys, k)
		}
		sort.Strings(keys)
		var sb strings.Builder
		for _, k := range keys {
			fmt.Fprintf(&sb, "%s=%d;", k, m[k])
		}
		return sb.String()
	}
	parse := func(s string) st {
		m := st{}
		for _, p := range strings.Split(s, ";") {
			if p == "" {
				continue
			}
			kv := strings.SplitN(p, "=", 2)
			var v int64
			fmt.Sscan(kv[1], &v)
			m[kv[0]] = v
		}
		return m
	}
	return porcupine.Model{
		Init: func() interface{} { return "" },
		Step: func(state, input, output interface{}) (bool, interface{}) {
			m := parse(state.(string))
			in, out := input.(opIn), output.(opOut)
			switch in.Op {
			case "get":
				v, ok := m[in.Key]
				return out.Ok == ok && (!ok || out.Val == v), state
			case "insert":
				if _, ok := m[in.Key]; ok {
					return !out.Ok, state
				}
				if !out.Ok {
					return false, state
				}
				m[in.Key] = in.Val
				return true, render(m)
			case "set":
				m[in.Key] = in.Val
				return true, render(m)
			case "remove":
				delete(m, in.Key)
				return true, render(m)
			case "len":
				return out.Val == int64(len(m)), state
			case "keys":
				keys := make([]string, 0, len(m))
				for k := range m {
					keys = append(keys, k)
				}
				sort.Strings(keys)
				return out.List == strings.Join(keys, ","), state
			case "values":
				vals := make([]string, 0, len(m))
				for _, v := range m {
					vals = append(vals, fmt.Sprint(v))
				}
				sort.Strings(vals)
				return out.List == strings.Join(vals, ","), state
			}
			return false, state
		},
		Equal: func(a, b interface{}) bool { return a.(string) == b.(string) },
	}
}

func runMap(seed int64, r *rand.Rand, stay int, replay []uint8, useContainer bool) runResult {
	ntasks := 2 + r.Intn(7)
	if r.Intn(6) == 0 {
		ntasks = 9 + r.Intn(8)
	}
	keys := []string{"k0", "k1", "k2", "k3"}[:1+r.Intn(4)]
	type planned struct {
		in opIn
	}
	plans := make([][]planned, ntasks)
	total := 0
	nextVal := int64(1)
	opNames := []string{"get", "insert", "set", "remove", "len", "keys", "values"}
	if useContainer {
		opNames = []string{"get", "insert", "set", "remove", "len", "keys"}
	}
	if r.Intn(3) == 0 {
		// write-heavy variant: inserts, sets and removes dominate
		opNames = append(opNames, "insert", "remove", "set", "remove", "insert", "remove")
	}
	for t := 0; t < ntasks; t++ {
		n := 1 + r.Intn(6)
		for i := 0; i < n && total < 40; i++ {
			op := opNames[r.Intn(len(opNames))]
			in := opIn{Op: op, Key: keys[r.Intn(len(keys))]}
			if op == "insert" || op == "set" {
				in.Val = nextVal
				nextVal++
				if !useContainer && r.Intn(5) == 0 {
					in.Val = 0 // stands for the nil interface value: an entry like any other
				}
			}
			plans[t] = append(plans[t], planned{in})
			total++
		}
	}
	// one run in twelve has a big past (below); its workload keys are present from the start
	bigPast := r.Intn(12) == 0
	var preVals []int64
	if bigPast {
		for range keys {
			preVals = append(preVals, nextVal)
			nextVal++
		}
	}
	// one MutexMap run in six stores values of an uncomparable type
	boxedVals := !useContainer && r.Intn(6) == 0
	box := func(v int64) interface{} {
		if boxedVals {
			return boxed{id: v}
		}
		return v
	}
	panics := make([]string, ntasks) // one slot per task: tasks share no harness state
	mm := container.NewMutexMap()
	fc := builtInFunctions.NewBuiltInFunctionContainer()
	stubs := map[int64]*fnStub{}
	for v := int64(1); v < nextVal; v++ {
		stubs[v] = &fnStub{id: v}
	}
	// a sequential past before the concurrent phase: 0..40 insert/remove pairs on scratch keys, so
	// that internal bookkeeping that depends on the map's history (not on its content) is reached;
	// the map is empty again afterwards, which is the model's initial state
	churn := r.Intn(5) * r.Intn(11)
	for i := 0; i < churn; i++ {
		k := fmt.Sprintf("past%d", i%3)
		if useContainer {
			_ = fc.Add(k, &fnStub{id: -1})
			fc.Remove(k)
		} else {
			mm.Insert(k, int64(-1))
			mm.Remove(k)
		}
	}
	// one run in twelve has a big past: the map once held a thousand or more entries and was emptied to
	// a fraction of that (plus a few), so that bookkeeping keyed to the map's peak size or to its
	// shrinking (rebuilds, compaction) is crossed by the removals of the concurrent phase. The bulk
	// entries that are left stay for the whole run; the harness takes them out of what Len, Keys and
	// Values report before the history goes to the model (and checks that they are all there).
	bulkLeft := 0
	var pre []porcupine.Operation
	if bigPast {
		for i, k := range keys {
			if useContainer {
				_ = fc.Add(k, stubs[preVals[i]])
			} else {
				mm.Insert(k, box(preVals[i]))
			}
			// recorded as the first operations of the history (stamps before every stamp of the run)
			pre = append(pre, porcupine.Operation{ClientId: ntasks + 1, Input: opIn{Op: "set", Key: k, Val: preVals[i]}, Call: int64(-1000 + 2*i), Output: opOut{}, Return: int64(-1000 + 2*i + 1)})
		}
		peak := []int{1024, 1027, 1500, 2048, 2400}[r.Intn(5)] // entries at the peak, workload keys included
		target := peak/[]int{2, 4, 4, 8, 16}[r.Intn(5)] + 1 + r.Intn(3)
		bulkLeft = target - len(keys) // so that removals of workload keys take the map across the fraction
		if bulkLeft < 0 {
			bulkLeft = 0
		}
		nbulk := peak - len(keys)
		for i := 0; i < nbulk; i++ {
			k := fmt.Sprintf("bulk%04d", i)
			if useContainer {
				_ = fc.Add(k, &fnStub{id: -1})
			} else {
				mm.Insert(k, int64(-1))
			}
		}
		for i := bulkLeft; i < nbulk; i++ {
			k := fmt.Sprintf("bulk%04d", i)
			if useContainer {
				fc.Remove(k)
			} else {
				mm.Remove(k)
			}
		}
	}
	// dropBulk removes the bulk entries from a sorted list; a list that does not hold all of them is marked
	dropBulk := func(l []string, isBulk func(string) bool) []string {
		out := l[:0:0]
		n := 0
		for _, e := range l {
			if isBulk(e) {
				n++
			} else {
				out = append(out, e)
			}
		}
		if n != bulkLeft {
			out = append(out, fmt.Sprintf("!%d-of-%d-bulk-entries", n, bulkLeft))
		}
		return out
	}
	bulkKey := func(e string) bool { return strings.HasPrefix(e, "bulk") }
	bulkVal := func(e string) bool { return e == "-1" }
	hist := make([][]porcupine.Operation, ntasks)
	snapshots := make([][]string, ntasks) // Keys() results kept to detect later mutation (aliasing)
	tasks := make([]func(), ntasks)
	for t := 0; t < ntasks; t++ {
		t := t
		tasks[t] = func() {
			for _, p := range plans[t] {
				in := p.in
				var out opOut
				call := simrt.Stamp()
				func() {
				defer func() {
					if p := recover(); p != nil && panics[t] == "" {
						panics[t] = fmt.Sprintf("task %d: %s(%s) panicked: %v", t, in.Op, in.Key, p)
					}
				}()
				if useContainer {
					switch in.Op {
					case "get":
						f, err := fc.Get(in.Key)
						if err == nil {
							out.Ok = true
							if s, ok := f.(*fnStub); ok {
								out.Val = s.id
							}
						}
					case "insert":
						out.Ok = fc.Add(in.Key, stubs[in.Val]) == nil
					case "set":
						_ = fc.Replace(in.Key, stubs[in.Val])
					case "remove":
						fc.Remove(in.Key)
					case "len":
						out.Val = int64(fc.Len() - bulkLeft)
					case "keys":
						ks := fc.Keys()
						l := make([]string, 0, len(ks))
						for k := range ks {
							l = append(l, k)
						}
						sort.Strings(l)
						out.List = strings.Join(dropBulk(l, bulkKey), ",")
					}
				} else {
					switch in.Op {
					case "get":
						v, ok := mm.Get(in.Key)
						out.Ok = ok
						if ok && v != nil {
							out.Val = unbox(v)
						}
					case "insert":
						if in.Val == 0 {
							out.Ok = mm.Insert(in.Key, nil)
						} else {
							out.Ok = mm.Insert(in.Key, box(in.Val))
						}
					case "set":
						if in.Val == 0 {
							mm.Set(in.Key, nil)
						} else {
							mm.Set(in.Key, box(in.Val))
						}
					case "remove":
						mm.Remove(in.Key)
					case "len":
						out.Val = int64(mm.Len() - bulkLeft)
					case "keys":
						ks := mm.Keys()
						l := make([]string, 0, len(ks))
						for _, k := range ks {
							l = append(l, k.(string))
						}
						sort.Strings(l)
						out.List = strings.Join(dropBulk(l, bulkKey), ",")
						snapshots[t] = append(snapshots[t], out.List)
					case "values":
						vs := mm.Values()
						l := make([]string, 0, len(vs))
						for _, v := range vs {
							if v == nil {
								l = append(l, "0")
							} else {
								l = append(l, fmt.Sprint(unbox(v)))
							}
						}
						sort.Strings(l)
						out.List = strings.Join(dropBulk(l, bulkVal), ",")
					}
				}
				}()
				ret := simrt.Stamp()
				hist[t] = append(hist[t], porcupine.Operation{ClientId: t, Input: in, Call: call, Output: out, Return: ret})
			}
		}
	}
	res := simrt.Run(uint64(seed), stay, tasks, replay, 2_000_000)
	ops := append([]porcupine.Operation{}, pre...)
	for _, h := range hist {
		ops = append(ops, h...)
	}
	// a final read by the driver after the join: no update may be lost
	call := simrt.Stamp()
	var fin opOut
	if useContainer {
		fin.Val = int64(fc.Len() - bulkLeft)
	} else {
		fin.Val = int64(mm.Len() - bulkLeft)
	}
	ops = append(ops, porcupine.Operation{ClientId: ntasks, Input: opIn{Op: "len"}, Call: call, Output: fin, Return: simrt.Stamp()})
	kind := "map"
	if useContainer {
		kind = "container"
	}
	rr := runResult{kind: kind, ops: len(ops), histories: 1, res: res, sample: describe(kind, ntasks, len(ops), stay)}
	for _, p := range panics {
		if p != "" {
			rr.viol = append(rr.viol, Violation{Seed: seed, Kind: "panic-" + kind, Detail: p})
			return rr
		}
	}
	if msg, unknown := checkHistory(mapModel(), ops); unknown {
		rr.unknown++
	} else if msg != "" {
		rr.viol = append(rr.viol, Violation{Seed: seed, Kind: "not-linearizable-" + kind, Detail: "history is not linearizable with respect to a sequential map: " + msg})
	}
	return rr
}
