package main

import (
	"fmt"
	"math/rand"

	"github.com/anishathalye/porcupine"

	"MODPATH/atomic"

	simrt "SIMRT_IMPORT"
)

// counterModel / flagModel / registerModel are the sequential specifications of the atomic types.
func counterModel() porcupine.Model {
	return porcupine.Model{
		Init: func() interface{} { return int64(0) },
		Step: func(state, input, output interface{}) (bool, interface{}) {
			s := state.(int64)
			in, out := input.(opIn), output.(opOut)
			switch in.Op {
			case "set":
				return true, in.Val
			case "inc":
				return out.Val == s+1, s + 1
			case "dec":
				return out.Val == s-1, s - 1
			case "add":
				return out.Val == s+in.Val, s + in.Val
			case "sub":
				return out.Val == s-in.Val, s - in.Val
			case "get":
				return out.Val == s, s
			case "getu":
				w := s
				if w < 0 {
					w = 0
				}
				return out.Val == w, s
			case "reset":
				return out.Val == s, int64(0)
			}
			return false, s
		},
		Equal: func(a, b interface{}) bool { return a.(int64) == b.(int64) },
	}
}

func flagModel() porcupine.Model {
	return porcupine.Model{
		Init: func() interface{} { return false },
		Step: func(state, input, output interface{}) (bool, interface{}) {
			s := state.(bool)
			in, out := input.(opIn), output.(opOut)
			switch in.Op {
			case "set":
				return out.Ok == s, true
			case "unset":
				return true, false
			case "isset":
				return out.Ok == s, s
			case "toggle":
				return true, in.B
			}
			return false, s
		},
		Equal: func(a, b interface{}) bool { return a.(bool) == b.(bool) },
	}
}

func registerModel(init string) porcupine.Model {
	return porcupine.Model{
		Init: func() interface{} { return init },
		Step: func(state, input, output interface{}) (bool, interface{}) {
			s := state.(string)
			in, out := input.(opIn), output.(opOut)
			switch in.Op {
			case "set":
				return true, in.S
			case "get":
				return out.S == s, s
			}
			return false, s
		},
		Equal: func(a, b interface{}) bool { return a.(string) == b.(string) },
	}
}

func runAtomic(seed int64, r *rand.Rand, stay int, replay []uint8) runResult {
	types := []string{"counter", "flag", "int64", "uint32", "uint64", "string"}
	typ := types[r.Intn(len(types))]
	ntasks := 2 + r.Intn(7)
	if r.Intn(6) == 0 {
		ntasks = 9 + r.Intn(8)
	}
	plans := make([][]opIn, ntasks)
	total := 0
	next := int64(1)
	for t := 0; t < ntasks; t++ {
		n := 1 + r.Intn(6)
		for i := 0; i < n && total < 40; i++ {
			var in opIn
			switch typ {
			case "counter":
				in.Op = []string{"set", "inc", "dec", "add", "sub", "get", "getu", "reset", "inc", "add"}[r.Intn(10)]
				in.Val = int64(1 + r.Intn(9))
				if in.Op == "set" {
					in.Val = next * 100
					next++
				}
			case "flag":
				in.Op = []string{"set", "unset", "isset", "toggle"}[r.Intn(4)]
				in.B = r.Intn(2) == 0
			default:
				in.Op = []string{"set", "get"}[r.Intn(2)]
				in.Val = next
				in.S = fmt.Sprint(next)
				next++
			}
			plans[t] = append(plans[t], in)
			total++
		}
	}
	var cnt atomic.Counter
	var flg atomic.Flag
	var i64 atomic.Int64
	var u32 atomic.Uint32
	var u64 atomic.Uint64
	var str atomic.String
	do := func(in opIn) opOut {
		var out opOut
		switch typ {
		case "counter":
			switch in.Op {
			case "set":
				cnt.Set(in.Val)
			case "inc":
				out.Val = cnt.Increment()
			case "dec":
				out.Val = cnt.Decrement()
			case "add":
				out.Val = cnt.Add(in.Val)
			case "sub":
				out.Val = cnt.Subtract(in.Val)
			case "get":
				out.Val = cnt.Get()
			case "getu":
				out.Val = int64(cnt.GetUint64())
			case "reset":
				out.Val = cnt.Reset()
			}
		case "flag":
			switch in.Op {
			case "set":
				out.Ok = flg.Set()
			case "unset":
				flg.Unset()
			case "isset":
				out.Ok = flg.IsSet()
			case "toggle":
				flg.Toggle(in.B)
			}
		case "int64":
			if in.Op == "set" {
				i64.Set(in.Val)
			} else {
				out.S = fmt.Sprint(i64.Get())
			}
		case "uint32":
			if in.Op == "set" {
				u32.Set(uint32(in.Val))
			} else {
				out.S = fmt.Sprint(u32.Get())
			}
		case "uint64":
			if in.Op == "set" {
				u64.Set(uint64(in.Val))
			} else {
				out.S = fmt.Sprint(u64.Get())
			}
		case "string":
			if in.Op == "set" {
				str.Set(in.S)
			} else {
				out.S = str.Get()
			}
		}
		return out
	}
	hist := make([][]porcupine.Operation, ntasks)
	tasks := make([]func(), ntasks)
	for t := 0; t < ntasks; t++ {
		t := t
		tasks[t] = func() {
			for _, in := range plans[t] {
				call := simrt.Stamp()
				out := do(in)
				ret := simrt.Stamp()
				hist[t] = append(hist[t], porcupine.Operation{ClientId: t, Input: in, Call: call, Output: out, Return: ret})
			}
		}
	}
	res := simrt.Run(uint64(seed), stay, tasks, replay, 2_000_000)
	var ops []porcupine.Operation
	for _, h := range hist {
		ops = append(ops, h...)
	}
	// final read after the join: no update may be lost
	fin := opIn{Op: "get"}
	if typ == "flag" {
		fin.Op = "isset"
	}
	call := simrt.Stamp()
	out := do(fin)
	ops = append(ops, porcupine.Operation{ClientId: ntasks, Input: fin, Call: call, Output: out, Return: simrt.Stamp()})
	var model porcupine.Model
	switch typ {
	case "counter":
		model = counterModel()
	case "flag":
		model = flagModel()
	case "string":
		model = registerModel("")
	default:
		model = registerModel("0")
	}
	rr := runResult{kind: "atomic", ops: len(ops), histories: 1, res: res, sample: describe("atomic."+typ, ntasks, len(ops), stay)}
	if msg, unknown := checkHistory(model, ops); unknown {
		rr.unknown++
	} else if msg != "" {
		rr.viol = append(rr.viol, Violation{Seed: seed, Kind: "not-linearizable-atomic-" + typ, Detail: "history of atomic." + typ + " is not linearizable (an update was lost or a read saw a value never current): " + msg})
	}
	return rr
}
