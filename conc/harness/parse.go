package main

import (
	"encoding/hex"
	"fmt"
	"math/big"
	"math/rand"
	"strings"

	vmcommon "MODPATH"
	"MODPATH/data/esdt"
	"MODPATH/parsers"

	simrt "SIMRT_IMPORT"
)

// The parse workload: the four transaction-data parsers are stateless objects that hosts share
// between goroutines (one ESDT-transfer parser per VM host / processor). 2-8 tasks parse messages
// from a common pool through ONE instance of each parser; every report must equal the report a fresh
// instance gives for the same message when nothing else runs, and no parser may write to its input.

type parseMsg struct {
	what string // "transfer" | "call" | "deploy" | "storage"
	snd  []byte
	rcv  []byte
	fn   string
	args [][]byte
	data string
	want string
}

func renderTransfers(p *vmcommon.ParsedESDTTransfers, err error) string {
	if err != nil {
		return "error: " + err.Error()
	}
	var sb strings.Builder
	fmt.Fprintf(&sb, "rcv=%x fn=%q args=%x n=%d", p.RcvAddr, p.CallFunction, p.CallArgs, len(p.ESDTTransfers))
	for _, t := range p.ESDTTransfers {
		fmt.Fprintf(&sb, " [%s type=%d nonce=%d value=%v]", t.ESDTTokenName, t.ESDTTokenType, t.ESDTTokenNonce, t.ESDTValue)
	}
	return sb.String()
}

type parserSet struct {
	tp interface {
		ParseESDTTransfers(sndAddr []byte, rcvAddr []byte, function string, args [][]byte) (*vmcommon.ParsedESDTTransfers, error)
	}
	cp interface {
		ParseData(data string) (string, [][]byte, error)
	}
	dp interface {
		ParseData(data string) (*parsers.DeployArgs, error)
	}
	sp interface {
		GetStorageUpdates(data string) ([]*vmcommon.StorageUpdate, error)
		CreateDataFromStorageUpdate(storageUpdates []*vmcommon.StorageUpdate) string
	}
}

func newParserSet() parserSet {
	tp, err := parsers.NewESDTTransferParser(codec{})
	if err != nil {
		fmt.Fprintln(os_stderr(), "cannot build the transfer parser:", err)
		exit2()
	}
	return parserSet{tp: tp, cp: parsers.NewCallArgsParser(), dp: parsers.NewDeployArgsParser(), sp: parsers.NewStorageUpdatesParser()}
}

func (ps parserSet) report(m *parseMsg) string {
	switch m.what {
	case "transfer":
		return renderTransfers(ps.tp.ParseESDTTransfers(m.snd, m.rcv, m.fn, m.args))
	case "call":
		fn, args, err := ps.cp.ParseData(m.data)
		if err != nil {
			return "error: " + err.Error()
		}
		return fmt.Sprintf("fn=%q args=%x", fn, args)
	case "deploy":
		d, err := ps.dp.ParseData(m.data)
		if err != nil {
			return "error: " + err.Error()
		}
		return fmt.Sprintf("code=%x vm=%x meta=%x args=%x", d.Code, d.VMType, d.CodeMetadata.ToBytes(), d.Arguments)
	}
	ups, err := ps.sp.GetStorageUpdates(m.data)
	if err != nil {
		return "error: " + err.Error()
	}
	var sb strings.Builder
	for _, u := range ups {
		fmt.Fprintf(&sb, "%x=%x;", u.Offset, u.Data)
	}
	return sb.String() + " again=" + ps.sp.CreateDataFromStorageUpdate(ups)
}

func fingerprint(m *parseMsg) string {
	return fmt.Sprintf("%x|%x|%s|%x|%s", m.snd, m.rcv, m.fn, m.args, m.data)
}

func runParse(seed int64, r *rand.Rand, stay int, replay []uint8) runResult {
	addr := func(b byte) []byte {
		a := make([]byte, 32)
		for i := range a {
			a[i] = b
		}
		return a
	}
	nextVal := int64(5 + r.Intn(90))
	uniq := func() *big.Int {
		nextVal = nextVal*7 + int64(1+r.Intn(1000))
		return big.NewInt(nextVal)
	}
	tokens := []string{"SFT-a1b2c3", "NFT-0f0f0f", "FUN-123456"}
	payload := func(nonce uint64, v *big.Int) []byte {
		b, _ := (&esdt.ESDigitalToken{Type: 1, Value: v, TokenMetaData: &esdt.MetaData{Nonce: nonce, Name: []byte(fmt.Sprintf("n%d", nonce)), Creator: addr(9), Royalties: uint32(r.Intn(10000))}}).Marshal()
		return b
	}
	nmsgs := 2 + r.Intn(8)
	pool := make([]*parseMsg, 0, nmsgs)
	for i := 0; i < nmsgs; i++ {
		m := &parseMsg{what: "transfer", snd: addr(byte(1 + r.Intn(4))), rcv: addr(byte(5 + r.Intn(4)))}
		tail := func() {
			if r.Intn(3) == 0 {
				m.args = append(m.args, []byte(fmt.Sprintf("func%d", i)))
				for j := r.Intn(3); j > 0; j-- {
					m.args = append(m.args, uniq().Bytes())
				}
			}
		}
		switch k := r.Intn(10); {
		case k < 1:
			m.fn = "ESDTTransfer"
			m.args = [][]byte{[]byte(tokens[2]), uniq().Bytes()}
			tail()
		case k < 3: // single NFT transfer, destination side (payload) or sender side
			m.fn = "ESDTNFTTransfer"
			nonce := uint64(1 + r.Intn(300))
			v := uniq()
			if r.Intn(3) > 0 {
				m.args = [][]byte{[]byte(tokens[r.Intn(2)]), big.NewInt(int64(nonce)).Bytes(), v.Bytes(), payload(nonce, v)}
			} else {
				m.snd = m.rcv
				m.args = [][]byte{[]byte(tokens[r.Intn(2)]), big.NewInt(int64(nonce)).Bytes(), v.Bytes(), addr(7)}
			}
			tail()
		case k < 7: // multi transfer, destination side: NFT entries carry their payload
			m.fn = "MultiESDTNFTTransfer"
			n := 1 + r.Intn(4)
			m.args = [][]byte{big.NewInt(int64(n)).Bytes()}
			for j := 0; j < n; j++ {
				if r.Intn(4) == 0 {
					m.args = append(m.args, []byte(tokens[2]), nil, uniq().Bytes())
					continue
				}
				nonce := uint64(1 + r.Intn(300))
				m.args = append(m.args, []byte(tokens[r.Intn(2)]), big.NewInt(int64(nonce)).Bytes(), payload(nonce, uniq()))
			}
			tail()
		case k < 8: // multi transfer, sender side
			m.fn = "MultiESDTNFTTransfer"
			m.snd = m.rcv
			n := 1 + r.Intn(3)
			m.args = [][]byte{addr(8), big.NewInt(int64(n)).Bytes()}
			for j := 0; j < n; j++ {
				m.args = append(m.args, []byte(tokens[r.Intn(3)]), big.NewInt(int64(r.Intn(5))).Bytes(), uniq().Bytes())
			}
			tail()
		case k < 9:
			m.what = "call"
			m.data = fmt.Sprintf("fn%d@%s@%s", i, hex.EncodeToString(uniq().Bytes()), hex.EncodeToString(uniq().Bytes()))
			if r.Intn(4) == 0 {
				m.data += "@0" // malformed: the error must be the same error
			}
		default:
			if r.Intn(2) == 0 {
				m.what = "deploy"
				m.data = fmt.Sprintf("%s@0500@0100@%s", hex.EncodeToString(uniq().Bytes()), hex.EncodeToString(uniq().Bytes()))
			} else {
				m.what = "storage"
				m.data = fmt.Sprintf("%s@%s@%s@%s", hex.EncodeToString(uniq().Bytes()), hex.EncodeToString(uniq().Bytes()), hex.EncodeToString(uniq().Bytes()), hex.EncodeToString(uniq().Bytes()))
			}
		}
		pool = append(pool, m)
	}
	// the reference report: a fresh set of parsers per message, nothing else running
	prints := make([]string, len(pool))
	for i, m := range pool {
		m.want = newParserSet().report(m)
		prints[i] = fingerprint(m)
	}
	shared := newParserSet()
	ntasks := 2 + r.Intn(7)
	plans := make([][]int, ntasks)
	total := 0
	for t := 0; t < ntasks; t++ {
		for n := 1 + r.Intn(5); n > 0; n-- {
			plans[t] = append(plans[t], r.Intn(len(pool)))
			total++
		}
	}
	viols := make([][]Violation, ntasks) // one list per task: the harness itself shares nothing between tasks
	tasks := make([]func(), ntasks)
	for t := 0; t < ntasks; t++ {
		t := t
		tasks[t] = func() {
			for _, i := range plans[t] {
				m := pool[i]
				got := func() (out string) {
					defer func() {
						if p := recover(); p != nil {
							out = fmt.Sprintf("panic: %v", p)
						}
					}()
					return shared.report(m)
				}()
				if got != m.want {
					viols[t] = append(viols[t], Violation{Seed: seed, Kind: "parser-concurrent", Detail: fmt.Sprintf("task %d: a parser shared by %d tasks reports %q for a message for which it reports %q when nothing else runs (message %s %x)", t, ntasks, got, m.want, m.fn+m.data, m.args)})
				}
			}
		}
	}
	res := simrt.Run(uint64(seed), stay, tasks, replay, 2_000_000)
	var viol []Violation
	for _, v := range viols {
		viol = append(viol, v...)
	}
	for i, m := range pool {
		if fingerprint(m) != prints[i] {
			viol = append(viol, Violation{Seed: seed, Kind: "parser-writes-input", Detail: fmt.Sprintf("a parser changed its input: message %d was %s and is %s", i, prints[i], fingerprint(m))})
		}
		// and afterwards, alone again, the shared instance still gives the reference report (no residue)
		if got := shared.report(m); got != m.want {
			viol = append(viol, Violation{Seed: seed, Kind: "parser-residue", Detail: fmt.Sprintf("after the concurrent phase the shared parser reports %q where a fresh one reports %q", got, m.want)})
		}
	}
	rr := runResult{kind: "parse", ops: total, res: res, sample: describe("parse", ntasks, total, stay) + fmt.Sprintf("; pool of %d messages, e.g. %s -> %s", len(pool), pool[0].fn+pool[0].data, pool[0].want)}
	if len(viol) > 3 {
		viol = viol[:3]
	}
	rr.viol = viol
	return rr
}
