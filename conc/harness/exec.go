package main

import (
	"bytes"
	"encoding/hex"
	"errors"
	"fmt"
	"math/big"
	"math/rand"
	"reflect"
	"sort"
	"strings"

	vmcommon "MODPATH"
	"MODPATH/builtInFunctions"
	"MODPATH/data/esdt"

	simrt "SIMRT_IMPORT"
)

// ---- task-private accounts ----

type acct struct {
	addr     []byte
	balance  *big.Int
	owner    []byte
	userName []byte
	reward   *big.Int
	codeMeta []byte
	storage  map[string][]byte
}

func newAcct(addr []byte) *acct {
	return &acct{addr: addr, balance: big.NewInt(0), reward: big.NewInt(0), storage: map[string][]byte{}}
}

func (a *acct) GetCodeMetadata() []byte                         { return a.codeMeta }
func (a *acct) GetCodeHash() []byte                             { return nil }
func (a *acct) GetRootHash() []byte                             { return nil }
func (a *acct) AccountDataHandler() vmcommon.AccountDataHandler { return a }
func (a *acct) AddToBalance(v *big.Int) error                   { a.balance = new(big.Int).Add(a.balance, v); return nil }
func (a *acct) GetBalance() *big.Int                            { return a.balance }
func (a *acct) ClaimDeveloperRewards(s []byte) (*big.Int, error) {
	if !bytes.Equal(s, a.owner) {
		return nil, errors.New("not owner")
	}
	v := a.reward
	a.reward = big.NewInt(0)
	return v, nil
}
func (a *acct) GetDeveloperReward() *big.Int { return a.reward }
func (a *acct) ChangeOwnerAddress(s, n []byte) error {
	if !bytes.Equal(s, a.owner) {
		return errors.New("not owner")
	}
	a.owner = append([]byte{}, n...)
	return nil
}
func (a *acct) SetOwnerAddress(o []byte) { a.owner = o }
func (a *acct) GetOwnerAddress() []byte  { return a.owner }
func (a *acct) SetUserName(u []byte)     { a.userName = append([]byte{}, u...) }
func (a *acct) GetUserName() []byte      { return a.userName }
func (a *acct) AddressBytes() []byte     { return a.addr }
func (a *acct) IncreaseNonce(uint64)     {}
func (a *acct) GetNonce() uint64         { return 0 }
func (a *acct) IsInterfaceNil() bool     { return a == nil }
func (a *acct) RetrieveValue(k []byte) ([]byte, error) {
	return a.storage[string(k)], nil
}
func (a *acct) SaveKeyValue(k, v []byte) error {
	if len(v) == 0 {
		delete(a.storage, string(k))
	} else {
		a.storage[string(k)] = append([]byte{}, v...)
	}
	return nil
}

type store struct{ accts map[string]*acct }

func (s *store) get(addr []byte) *acct {
	a, ok := s.accts[string(addr)]
	if !ok {
		a = newAcct(append([]byte{}, addr...))
		s.accts[string(addr)] = a
	}
	return a
}

// accounts routes every call to the store of the running task, so tasks share no harness state.
type accounts struct {
	stores   []*store
	fallback int
}

func (a *accounts) cur() *store {
	t := simrt.Current()
	if t < 0 || t >= len(a.stores) {
		t = a.fallback
	}
	return a.stores[t]
}
func (a *accounts) GetExistingAccount(addr []byte) (vmcommon.AccountHandler, error) {
	return a.cur().get(addr), nil
}
func (a *accounts) LoadAccount(addr []byte) (vmcommon.AccountHandler, error) {
	return a.cur().get(addr), nil
}
func (a *accounts) SaveAccount(vmcommon.AccountHandler) error { return nil }
func (a *accounts) RemoveAccount([]byte) error                { return nil }
func (a *accounts) Commit() ([]byte, error)                   { return nil, nil }
func (a *accounts) JournalLen() int                           { return 0 }
func (a *accounts) RevertToSnapshot(int) error                { return nil }
func (a *accounts) GetNumCheckpoints() uint32                 { return 0 }
func (a *accounts) GetCode([]byte) []byte                     { return nil }
func (a *accounts) RootHash() ([]byte, error)                 { return nil, nil }
func (a *accounts) RecreateTrie([]byte) error                 { return nil }
func (a *accounts) IsInterfaceNil() bool                      { return a == nil }

type codec struct{}

func (codec) Marshal(obj interface{}) ([]byte, error) {
	return obj.(interface{ Marshal() ([]byte, error) }).Marshal()
}
func (codec) Unmarshal(obj interface{}, b []byte) error {
	m := obj.(interface {
		Reset()
		Unmarshal([]byte) error
	})
	m.Reset()
	return m.Unmarshal(b)
}
func (codec) IsInterfaceNil() bool { return false }

type coord struct{}

func (coord) NumberOfShards() uint32 { return 2 }
func (coord) ComputeId(a []byte) uint32 {
	if len(a) == 0 {
		return 0
	}
	return uint32(a[len(a)-1]) % 2
}
func (coord) SelfId() uint32                        { return 0 }
func (c coord) SameShard(a, b []byte) bool          { return c.ComputeId(a) == c.ComputeId(b) }
func (coord) CommunicationIdentifier(uint32) string { return "" }
func (coord) IsInterfaceNil() bool                  { return false }

type notifier struct{ handlers []vmcommon.EpochSubscriberHandler }

func (n *notifier) RegisterNotifyHandler(h vmcommon.EpochSubscriberHandler) {
	n.handlers = append(n.handlers, h)
	h.EpochConfirmed(0, 0)
}
func (n *notifier) IsInterfaceNil() bool { return n == nil }

// payAll is the host's payability handler: stateless; every address is payable except the contracts
// built by npAddr (marker byte 0xEE), so that some operations of the workload must be refused under
// every interleaving.
type payAll struct{}

func (payAll) IsPayable(a []byte) (bool, error) { return !(len(a) > 11 && a[11] == 0xEE), nil }
func (payAll) IsInterfaceNil() bool             { return false }

// ---- schedules: every (base cost, per-byte price) pair identifies its schedule ----

var builtinNames = []string{"ChangeOwnerAddress", "ClaimDeveloperRewards", "SaveUserName", "SaveKeyValue", "ESDTTransfer", "ESDTBurn", "ESDTLocalMint", "ESDTLocalBurn", "ESDTNFTCreate", "ESDTNFTAddQuantity", "ESDTNFTBurn", "ESDTNFTTransfer", "ESDTNFTChangeCreateOwner", "ESDTNFTMultiTransfer", "ESDTNFTAddURI", "ESDTNFTUpdateAttributes"}

func fcost(k int, name string) uint64 {
	for q, n := range builtinNames {
		if n == name {
			return uint64(1_000_000*(k+1) + 1000*q)
		}
	}
	panic("unknown cost " + name)
}
// fcostOf maps a function name to its flat price under schedule k (tight-gas calls only use flat-priced functions).
func fcostOf(fn string, k int) uint64 {
	switch fn {
	case "ESDTLocalMint":
		return fcost(k, "ESDTLocalMint")
	case "ESDTNFTAddQuantity":
		return fcost(k, "ESDTNFTAddQuantity")
	case "ESDTTransfer":
		return fcost(k, "ESDTTransfer")
	case "ESDTNFTTransfer":
		return fcost(k, "ESDTNFTTransfer")
	}
	return 0
}
func storePB(k int) uint64   { return uint64(10 + k) }
func persistPB(k int) uint64 { return uint64(40 + k) }
func copyPB(k int) uint64    { return uint64(70 + k) }

func schedule(k int) map[string]map[string]uint64 {
	b := map[string]uint64{}
	for _, n := range builtinNames {
		b[n] = fcost(k, n)
	}
	return map[string]map[string]uint64{
		vmcommon.BuiltInCostString: b,
		vmcommon.BaseOperationCostString: {"StorePerByte": storePB(k), "ReleasePerByte": uint64(100 + k), "DataCopyPerByte": copyPB(k),
			"PersistPerByte": persistPB(k), "CompilePerByte": uint64(130 + k), "AoTPreparePerByte": uint64(160 + k)},
	}
}

// fillCost writes schedule k (or, with k < 0, recognisable garbage) into a GasCost object the way a
// host that reuses one object would.
func fillCost(g *vmcommon.GasCost, k int) {
	var m map[string]map[string]uint64
	if k >= 0 {
		m = schedule(k)
	}
	fill := func(v reflect.Value, src map[string]uint64, junk uint64) {
		for i := 0; i < v.NumField(); i++ {
			if k < 0 {
				v.Field(i).SetUint(junk + uint64(i))
			} else {
				v.Field(i).SetUint(src[v.Type().Field(i).Name])
			}
		}
	}
	fill(reflect.ValueOf(&g.BaseOperationCost).Elem(), m[vmcommon.BaseOperationCostString], 7_000_000_001)
	fill(reflect.ValueOf(&g.BuiltInCost).Elem(), m[vmcommon.BuiltInCostString], 9_000_000_001)
}

// addrExtra: additional address bytes beyond 32 (the library never fixes the address length; it only
// compares lengths with each other). Set per run, read by the address constructors.
var addrExtra = func(t int) int { return 0 }

func userAddr(t int, shard byte) []byte {
	a := bytes.Repeat([]byte{byte(0x20 + t)}, 32+addrExtra(t))
	a[0] = 'u'
	a[len(a)-1] = shard
	return a
}
func scAddr(t int, shard byte) []byte {
	a := make([]byte, 32+addrExtra(t))
	a[8], a[9], a[10] = 5, 0, byte(0x40+t)
	a[len(a)-1] = shard
	return a
}

func npAddr(t int, shard byte) []byte {
	a := scAddr(t, shard)
	a[11] = 0xEE
	return a
}

// digestOutput renders everything a call returned except the gas numbers (which depend on the schedule
// in force): the isolation oracle compares it with the output of the same call executed alone.
func digestOutput(out *vmcommon.VMOutput) string {
	var b strings.Builder
	fmt.Fprintf(&b, "rc=%d msg=%q data=%x", out.ReturnCode, out.ReturnMessage, out.ReturnData)
	for _, l := range out.Logs {
		fmt.Fprintf(&b, " log(%x %x %x %x)", l.Identifier, l.Address, l.Topics, l.Data)
	}
	keys := make([]string, 0, len(out.OutputAccounts))
	for k := range out.OutputAccounts {
		keys = append(keys, k)
	}
	sort.Strings(keys)
	for _, k := range keys {
		oa := out.OutputAccounts[k]
		fmt.Fprintf(&b, " acct(%x delta=%v", oa.Address, oa.BalanceDelta)
		for _, ot := range oa.OutputTransfers {
			fmt.Fprintf(&b, " tr(%v %q ct=%d snd=%x)", ot.Value, ot.Data, ot.CallType, ot.SenderAddress)
		}
		b.WriteString(")")
	}
	return b.String()
}

// diffStores reports the first difference between two task-private stores.
func diffStores(a, b *store) string {
	names := map[string]bool{}
	for k := range a.accts {
		names[k] = true
	}
	for k := range b.accts {
		names[k] = true
	}
	sorted := make([]string, 0, len(names))
	for k := range names {
		sorted = append(sorted, k)
	}
	sort.Strings(sorted)
	empty := newAcct(nil)
	for _, k := range sorted {
		x, y := a.accts[k], b.accts[k]
		if x == nil {
			x = empty
		}
		if y == nil {
			y = empty
		}
		if x.balance.Cmp(y.balance) != 0 || x.reward.Cmp(y.reward) != 0 || !bytes.Equal(x.owner, y.owner) || !bytes.Equal(x.userName, y.userName) {
			return fmt.Sprintf("account %x: balance/reward/owner/user name %v/%v/%x/%q, alone %v/%v/%x/%q", k, x.balance, x.reward, x.owner, x.userName, y.balance, y.reward, y.owner, y.userName)
		}
		ks := map[string]bool{}
		for kk := range x.storage {
			ks[kk] = true
		}
		for kk := range y.storage {
			ks[kk] = true
		}
		skeys := make([]string, 0, len(ks))
		for kk := range ks {
			skeys = append(skeys, kk)
		}
		sort.Strings(skeys)
		for _, kk := range skeys {
			if !bytes.Equal(x.storage[kk], y.storage[kk]) {
				return fmt.Sprintf("account %x key %q holds %x, alone %x", k, kk, x.storage[kk], y.storage[kk])
			}
		}
	}
	return ""
}

type execRec struct {
	// digest: the output without its gas numbers; expectErr: the operation must be refused whatever runs beside it
	digest    string
	expectErr bool
	gas      uint64
	created  string
	fn       string
	invoke   int64
	ret      int64
	observed uint64
	charge   func(k int) uint64
	err      string
	// need: (tight-gas calls whose price has a per-byte part) an upper estimate of the price under
	// schedule k, used only to decide whether a refusal for lack of gas is legitimate
	need func(k int) uint64
}

type change struct{ start, end int64 }

var gasGiven = uint64(1_000_000_000_000)

func runExec(seed int64, r *rand.Rand, stay int, replay []uint8) runResult {
	nexec := 1 + r.Intn(6)
	if r.Intn(5) == 0 {
		nexec = 7 + r.Intn(7)
	}
	ntasks := nexec + 2
	acc := &accounts{}
	for t := 0; t < ntasks; t++ {
		acc.stores = append(acc.stores, &store{accts: map[string]*acct{}})
	}
	// one run in four: tasks use addresses of 36, 40 and 44 bytes (all addresses of one task equally long)
	addrExtra = func(int) int { return 0 }
	if r.Intn(4) == 0 {
		addrExtra = func(t int) int {
			if t >= 60 {
				return 0
			}
			return 4 * (1 + t%3)
		}
	}
	dns := scAddr(60, 0)
	not := &notifier{}
	fac, err := builtInFunctions.NewBuiltInFunctionsFactory(builtInFunctions.ArgsCreateBuiltInFunctionContainer{
		GasMap: schedule(0), MapDNSAddresses: map[string]struct{}{string(dns): {}}, EnableUserNameChange: true, Marshalizer: codec{},
		Accounts: acc, ShardCoordinator: coord{}, EpochNotifier: not, ESDTNFTImprovementV1ActivationEpoch: 0})
	if err != nil {
		fmt.Fprintln(os_stderr(), "factory:", err)
		exit2()
	}
	cont, err := fac.CreateBuiltInFunctionContainer()
	if err != nil {
		fmt.Fprintln(os_stderr(), "container:", err)
		exit2()
	}
	if err := builtInFunctions.SetPayableHandler(cont, payAll{}); err != nil {
		exit2()
	}
	roleKey := func(tok []byte) []byte { return append([]byte("ELRONDroleesdt"), tok...) }
	// task-private worlds
	type taskState struct {
		user, sc, np, far []byte
		tokF, tokN    []byte // every task works with its own token identifiers
		created       uint64
		frozen        bool
		paused        bool
		kv            map[string][]byte
	}
	shortIDs := r.Intn(3) == 0
	directReprice := r.Intn(4) == 0
	ts := make([]*taskState, nexec)
	// initTask builds the private world of task t: called once before the run and once more, on a fresh
	// store, for the reference execution of the same plan alone (isolation oracle)
	initTask := func(t int, s *store) *taskState {
		st := &taskState{user: userAddr(t, 0), sc: scAddr(t, 0), np: npAddr(t, 0), far: userAddr(t, 1), kv: map[string][]byte{},
			tokF: []byte(fmt.Sprintf("FUN-%06x", 0xa00000+t)), tokN: []byte(fmt.Sprintf("SFT-%06x", 0xb00000+t))}
		if shortIDs {
			// identifiers of two to six bytes (the library does not check identifiers; a key buffer with
			// spare room for a short identifier is shared where one without is not)
			st.tokF, st.tokN = []byte(fmt.Sprintf("F%d", t)), []byte(fmt.Sprintf("S%d", t))
			if t%2 == 1 {
				st.tokF, st.tokN = []byte(fmt.Sprintf("FN-%02d", t)), []byte(fmt.Sprintf("SF-%02d", t))
			}
		}
		tokF, tokN := st.tokF, st.tokN
		u := s.get(st.user)
		rolesF, _ := (&esdt.ESDTRoles{Roles: [][]byte{[]byte("ESDTRoleLocalMint"), []byte("ESDTRoleLocalBurn")}}).Marshal()
		rolesN, _ := (&esdt.ESDTRoles{Roles: [][]byte{[]byte("ESDTRoleNFTCreate"), []byte("ESDTRoleNFTAddQuantity"), []byte("ESDTRoleNFTBurn"), []byte("ESDTRoleNFTAddURI"), []byte("ESDTRoleNFTUpdateAttributes")}}).Marshal()
		u.storage[string(roleKey(tokF))] = rolesF
		u.storage[string(roleKey(tokN))] = rolesN
		bal, _ := (&esdt.ESDigitalToken{Value: big.NewInt(1_000_000)}).Marshal()
		u.storage["ELRONDesdt"+string(tokF)] = bal
		c := s.get(st.sc)
		c.owner = st.user
		c.reward = big.NewInt(5)
		return st
	}
	for t := 0; t < nexec; t++ {
		ts[t] = initTask(t, acc.stores[t])
	}
	K := 1 + r.Intn(5)
	changes := make([]change, 0, K)
	recs := make([][]execRec, nexec)
	plans := make([][]string, nexec)
	kindsAll := []string{"transfercall", "transfercall", "nftlocal", "nftlocal", "skv", "create", "adduri", "updattr", "mint", "lburn", "burn", "transfer", "nfttransfer", "multi", "addqty", "nftburn", "owner", "claim", "username", "freeze", "freeze", "roles",
		"plainnp", "nftnp", "multinp", "multicall", "multicall", "arrive", "pause"}
	for t := 0; t < nexec; t++ {
		n := 2 + r.Intn(8)
		plans[t] = append(plans[t], "create")
		for i := 0; i < n; i++ {
			plans[t] = append(plans[t], kindsAll[r.Intn(len(kindsAll))])
		}
	}
	seedsForArgs := make([]int64, nexec)
	for t := range seedsForArgs {
		seedsForArgs[t] = r.Int63()
	}
	// tightGas[t] > 0: the next call of task t is given exactly that much gas (the flat price of its
	// function under one of the schedules), so that an execution admitted by one schedule and charged
	// by another shows as gas out of nothing
	tightGas := make([]uint64, ntasks)
	lastNFTLen := make([]uint64, ntasks)
	noTight := false
	call := func(t int, fn string, caller, rcv []byte, args [][]byte, snd, dst vmcommon.UserAccountHandler, charge func(k int, out *vmcommon.VMOutput) uint64) execRec {
		rec := execRec{fn: fn}
		gas := gasGiven
		if tightGas[t] > 0 && !noTight {
			gas = tightGas[t]
		}
		tightGas[t] = 0
		rec.gas = gas
		in := &vmcommon.ContractCallInput{VMInput: vmcommon.VMInput{CallerAddr: caller, Arguments: args, CallValue: big.NewInt(0), GasProvided: gas}, RecipientAddr: rcv, Function: fn}
		rec.invoke = simrt.Stamp()
		bf, err := cont.Get(fn)
		if err != nil {
			rec.err = err.Error()
			rec.ret = simrt.Stamp()
			return rec
		}
		out, err := bf.ProcessBuiltinFunction(snd, dst, in)
		rec.ret = simrt.Stamp()
		if err != nil || out == nil {
			rec.err = fmt.Sprint(err)
			return rec
		}
		fwd := uint64(0)
		for _, oa := range out.OutputAccounts {
			for _, ot := range oa.OutputTransfers {
				fwd += ot.GasLimit
			}
		}
		if out.GasRemaining > gas || fwd > gas-out.GasRemaining {
			rec.created = fmt.Sprintf("GasRemaining %d + forwarded %d with %d provided", out.GasRemaining, fwd, gas)
		}
		rec.observed = gas - out.GasRemaining - fwd
		rec.charge = func(k int) uint64 { return charge(k, out) }
		rec.digest = digestOutput(out)
		return rec
	}
	// unpriced: the flat or per-byte price of this shape of call is not judged here (the world engine does
	// that); its outcome and effect are, by the isolation oracle
	unpriced := func(rec execRec) execRec {
		obs := rec.observed
		rec.charge = func(int) uint64 { return obs }
		return rec
	}
	refused := func(rec execRec) execRec {
		rec.expectErr = true
		return rec
	}
	payloadLen := func(out *vmcommon.VMOutput, idx int) uint64 {
		for _, oa := range out.OutputAccounts {
			for _, ot := range oa.OutputTransfers {
				parts := strings.Split(string(ot.Data), "@")
				if len(parts) > idx {
					b, _ := hex.DecodeString(parts[idx])
					return uint64(len(b))
				}
			}
		}
		return 0
	}
	// control functions carry no price: their effect on the task's own account is checked instead
	control := func(t int, fn string, rcv []byte, args [][]byte, dst vmcommon.UserAccountHandler, check func() string) execRec {
		rec := execRec{fn: fn, charge: func(int) uint64 { return 0 }}
		in := &vmcommon.ContractCallInput{VMInput: vmcommon.VMInput{CallerAddr: vmcommon.ESDTSCAddress, Arguments: args, CallValue: big.NewInt(0)}, RecipientAddr: rcv, Function: fn}
		rec.invoke = simrt.Stamp()
		bf, err := cont.Get(fn)
		if err == nil {
			var out *vmcommon.VMOutput
			out, err = bf.ProcessBuiltinFunction(nil, dst, in)
			if err == nil && out == nil {
				err = errors.New("nil output")
			}
		}
		rec.ret = simrt.Stamp()
		if err != nil {
			rec.err = err.Error()
			return rec
		}
		if msg := check(); msg != "" {
			rec.err = "wrong effect: " + msg
		}
		return rec
	}
	var doOpUnfrozen func(t int, op string, ar *rand.Rand) (execRec, bool)
	doOp := func(t int, op string, ar *rand.Rand) (execRec, bool) {
		st := ts[t]
		if st.frozen || st.paused {
			switch op {
			case "mint", "lburn", "burn", "transfer", "transfercall", "multi", "multicall", "arrive":
				if ar.Intn(3) != 0 {
					return execRec{}, false // the fungible entry is frozen or the token paused: balance operations would be refused
				}
				// ... and one time in three they are tried: they must be refused whatever runs beside them
				rec, ok := doOpUnfrozen(t, op, ar)
				return refused(rec), ok
			}
		}
		return doOpUnfrozen(t, op, ar)
	}
	doOpUnfrozen = func(t int, op string, ar *rand.Rand) (execRec, bool) {
		st := ts[t]
		tokF, tokN := st.tokF, st.tokN
		u := acc.stores[t].get(st.user)
		switch op {
		case "freeze":
			key := "ELRONDesdt" + string(tokF)
			other := "ELRONDesdt" + string(tokN) + "\x01"
			otherBefore := append([]byte{}, u.storage[other]...)
			fn := "ESDTFreeze"
			if st.frozen {
				fn = "ESDTUnFreeze"
			}
			st.frozen = !st.frozen
			want := st.frozen
			return control(t, fn, st.user, [][]byte{tokF}, u, func() string {
				tok := &esdt.ESDigitalToken{}
				if err := tok.Unmarshal(u.storage[key]); err != nil || len(u.storage[key]) == 0 {
					return fmt.Sprintf("the entry of %s is gone or undecodable after %s", tokF, fn)
				}
				if got := len(tok.Properties) == 2 && tok.Properties[0]&1 != 0; got != want {
					return fmt.Sprintf("frozen flag of %s is %v after %s", tokF, got, fn)
				}
				if !bytes.Equal(otherBefore, u.storage[other]) {
					return fmt.Sprintf("%s changed the entry of another token", fn)
				}
				return ""
			}), true
		case "pause":
			// the task's own fungible token is paused / un-paused in the task's own copy of the system account
			fn := "ESDTPause"
			if st.paused {
				fn = "ESDTUnPause"
			}
			st.paused = !st.paused
			want := st.paused
			sys := acc.stores[t].get(vmcommon.SystemAccountAddress)
			key := "ELRONDesdt" + string(tokF)
			return control(t, fn, vmcommon.SystemAccountAddress, [][]byte{tokF}, sys, func() string {
				if got := builtInFunctions.ESDTGlobalMetadataFromBytes(sys.storage[key]).Paused; got != want {
					return fmt.Sprintf("paused flag of %s is %v after %s", tokF, got, fn)
				}
				if len(sys.storage) > 1 {
					return fmt.Sprintf("%s wrote %d keys of the system account", fn, len(sys.storage))
				}
				return ""
			}), true
		case "roles":
			rk := string(roleKey(tokF))
			before := append([]byte{}, u.storage[string(roleKey(tokN))]...)
			return control(t, "ESDTSetRole", st.user, [][]byte{tokF, []byte(fmt.Sprintf("ESDTRoleExtra%d", ar.Intn(1000000)))}, u, func() string {
				r := &esdt.ESDTRoles{}
				if err := r.Unmarshal(u.storage[rk]); err != nil || len(r.Roles) < 3 {
					return "the role list of the task's fungible token lost entries"
				}
				if !bytes.Equal(before, u.storage[string(roleKey(tokN))]) {
					return "ESDTSetRole changed the role list of another token"
				}
				return ""
			}), true
		}
		switch op {
		case "skv":
			npairs := 1 + ar.Intn(3)
			var args [][]byte
			type pc struct{ lk, lv, change uint64 }
			var pcs []pc
			for i := 0; i < npairs; i++ {
				k := []byte(fmt.Sprintf("key%d", ar.Intn(3)))
				v := make([]byte, ar.Intn(20))
				ar.Read(v)
				old := st.kv[string(k)]
				lenChange := uint64(0)
				if !bytes.Equal(old, v) && len(v) > len(old) {
					lenChange = uint64(len(v) - len(old))
				}
				st.kv[string(k)] = v
				args = append(args, k, v)
				pcs = append(pcs, pc{uint64(len(k)), uint64(len(v)), lenChange})
			}
			return call(t, "SaveKeyValue", st.user, st.user, args, u, u, func(k int, _ *vmcommon.VMOutput) uint64 {
				c := fcost(k, "SaveKeyValue")
				for _, p := range pcs {
					c += persistPB(k)*(p.lk+p.lv) + storePB(k)*p.change
				}
				return c
			}), true
		case "create":
			args := [][]byte{tokN, big.NewInt(1000).Bytes(), []byte("name"), big.NewInt(100).Bytes(), []byte("hash"), make([]byte, ar.Intn(30)), make([]byte, 1+ar.Intn(20))}
			total := uint64(0)
			for _, a := range args {
				total += uint64(len(a))
			}
			st.created++
			return call(t, "ESDTNFTCreate", st.user, st.user, args, u, u, func(k int, _ *vmcommon.VMOutput) uint64 {
				return fcost(k, "ESDTNFTCreate") + storePB(k)*total
			}), true
		case "adduri":
			uri := make([]byte, 1+ar.Intn(30))
			l := uint64(len(uri))
			return call(t, "ESDTNFTAddURI", st.user, st.user, [][]byte{tokN, {1}, uri}, u, u, func(k int, _ *vmcommon.VMOutput) uint64 {
				return fcost(k, "ESDTNFTAddURI") + storePB(k)*l
			}), true
		case "updattr":
			at := make([]byte, ar.Intn(40))
			l := uint64(len(at))
			return call(t, "ESDTNFTUpdateAttributes", st.user, st.user, [][]byte{tokN, {1}, at}, u, u, func(k int, _ *vmcommon.VMOutput) uint64 {
				return fcost(k, "ESDTNFTUpdateAttributes") + storePB(k)*l
			}), true
		case "mint":
			if ar.Intn(3) == 0 {
				tightGas[t] = fcost(ar.Intn(K+1), "ESDTLocalMint") + []uint64{0, 0, 1, 7}[ar.Intn(4)]
			}
			return call(t, "ESDTLocalMint", st.user, st.user, [][]byte{tokF, {7}}, u, u, func(k int, _ *vmcommon.VMOutput) uint64 { return fcost(k, "ESDTLocalMint") }), true
		case "lburn":
			return call(t, "ESDTLocalBurn", st.user, st.user, [][]byte{tokF, {1}}, u, u, func(k int, _ *vmcommon.VMOutput) uint64 { return fcost(k, "ESDTLocalBurn") }), true
		case "burn":
			return call(t, "ESDTBurn", st.user, vmcommon.ESDTSCAddress, [][]byte{tokF, {1}}, u, nil, func(k int, _ *vmcommon.VMOutput) uint64 { return fcost(k, "ESDTBurn") }), true
		case "transfercall":
			// transfer and execute inside the shard: both accounts are loaded, what is left of the gas
			// after the flat price goes to the call; gas is often tight (one schedule's price plus a little)
			if ar.Intn(2) == 0 {
				tightGas[t] = fcost(ar.Intn(K+1), "ESDTTransfer") + []uint64{0, 1, 7, 40}[ar.Intn(4)]
			}
			c := acc.stores[t].get(st.sc)
			return call(t, "ESDTTransfer", st.user, st.sc, [][]byte{tokF, {1}, []byte("accept"), {byte(ar.Intn(256))}}, u, c, func(k int, _ *vmcommon.VMOutput) uint64 { return fcost(k, "ESDTTransfer") }), true
		case "nftlocal":
			// a plain NFT transfer to a contract in the same shard: the destination is loaded and the
			// host's payability handler is asked in the middle of the execution; gas is often tight
			// (the price has a per-byte part even inside the shard: the bytes of the entry as it is
			// stored at the destination; its length is read right after the call)
			c := acc.stores[t].get(st.sc)
			key := "ELRONDesdt" + string(tokN) + "\x01"
			last := lastNFTLen[t]
			if last > 0 && ar.Intn(2) == 0 {
				kk := ar.Intn(K + 1)
				tightGas[t] = fcost(kk, "ESDTNFTTransfer") + copyPB(kk)*last + []uint64{0, 1, 7, 40}[ar.Intn(4)]
			} else {
				tightGas[t] = 0
			}
			rec := call(t, "ESDTNFTTransfer", st.user, st.user, [][]byte{tokN, {1}, {1}, st.sc}, u, u, func(k int, _ *vmcommon.VMOutput) uint64 { return 0 })
			l := uint64(len(c.storage[key]))
			if rec.err == "" && l > 0 {
				lastNFTLen[t] = l
				rec.charge = func(k int) uint64 { return fcost(k, "ESDTNFTTransfer") + copyPB(k)*l }
			}
			rec.need = func(k int) uint64 { return fcost(k, "ESDTNFTTransfer") + copyPB(k)*(last+2) }
			return rec, true
		case "transfer":
			return call(t, "ESDTTransfer", st.user, st.far, [][]byte{tokF, {1}}, u, nil, func(k int, _ *vmcommon.VMOutput) uint64 { return fcost(k, "ESDTTransfer") }), true
		case "nfttransfer":
			return call(t, "ESDTNFTTransfer", st.user, st.user, [][]byte{tokN, {1}, {1}, st.far}, u, u, func(k int, out *vmcommon.VMOutput) uint64 {
				return fcost(k, "ESDTNFTTransfer") + copyPB(k)*payloadLen(out, 4)
			}), true
		case "multi":
			return call(t, "MultiESDTNFTTransfer", st.user, st.user, [][]byte{st.far, {2}, tokF, {0}, {1}, tokN, {1}, {1}}, u, u, func(k int, out *vmcommon.VMOutput) uint64 {
				return 2*fcost(k, "ESDTNFTMultiTransfer") + copyPB(k)*payloadLen(out, 7)
			}), true
		case "addqty":
			if ar.Intn(3) == 0 {
				tightGas[t] = fcost(ar.Intn(K+1), "ESDTNFTAddQuantity") + []uint64{0, 0, 1, 7}[ar.Intn(4)]
			}
			return call(t, "ESDTNFTAddQuantity", st.user, st.user, [][]byte{tokN, {1}, {3}}, u, u, func(k int, _ *vmcommon.VMOutput) uint64 { return fcost(k, "ESDTNFTAddQuantity") }), true
		case "nftburn":
			return call(t, "ESDTNFTBurn", st.user, st.user, [][]byte{tokN, {1}, {1}}, u, u, func(k int, _ *vmcommon.VMOutput) uint64 { return fcost(k, "ESDTNFTBurn") }), true
		case "owner":
			c := acc.stores[t].get(st.sc)
			// hand the contract back and forth between the user and itself as owner
			newOwner := st.user
			return call(t, "ChangeOwnerAddress", c.owner, st.sc, [][]byte{newOwner}, acc.stores[t].get(c.owner), c, func(k int, _ *vmcommon.VMOutput) uint64 { return fcost(k, "ChangeOwnerAddress") }), true
		case "claim":
			c := acc.stores[t].get(st.sc)
			return call(t, "ClaimDeveloperRewards", c.owner, st.sc, nil, acc.stores[t].get(c.owner), c, func(k int, _ *vmcommon.VMOutput) uint64 { return fcost(k, "ClaimDeveloperRewards") }), true
		case "plainnp":
			// a plain transfer to a contract of the shard that is not payable: refused, always
			c := acc.stores[t].get(st.np)
			return refused(call(t, "ESDTTransfer", st.user, st.np, [][]byte{tokF, {1}}, u, c, func(k int, _ *vmcommon.VMOutput) uint64 { return 0 })), true
		case "nftnp":
			return refused(call(t, "ESDTNFTTransfer", st.user, st.user, [][]byte{tokN, {1}, {1}, st.np}, u, u, func(k int, _ *vmcommon.VMOutput) uint64 { return 0 })), true
		case "multinp":
			return refused(call(t, "MultiESDTNFTTransfer", st.user, st.user, [][]byte{st.np, {1}, tokF, {0}, {1}}, u, u, func(k int, _ *vmcommon.VMOutput) uint64 { return 0 })), true
		case "multicall":
			// the same transfer with an attached call is exempt from the payability rule: accepted, always
			return unpriced(call(t, "MultiESDTNFTTransfer", st.user, st.user, [][]byte{st.np, {1}, tokF, {0}, {1}, []byte("accept"), {byte(ar.Intn(256))}}, u, u, func(k int, _ *vmcommon.VMOutput) uint64 { return 0 })), true
		case "arrive":
			// destination leg of a transfer sent from the other shard: no sender account here
			return unpriced(call(t, "ESDTTransfer", st.far, st.user, [][]byte{tokF, {2}}, nil, u, func(k int, _ *vmcommon.VMOutput) uint64 { return 0 })), true
		case "username":
			name := make([]byte, 1+ar.Intn(10))
			return call(t, "SetUserName", dns, st.user, [][]byte{name}, nil, u, func(k int, _ *vmcommon.VMOutput) uint64 { return fcost(k, "SaveUserName") }), true
		}
		return execRec{}, false
	}
	tasks := make([]func(), ntasks)
	for t := 0; t < nexec; t++ {
		t := t
		tasks[t] = func() {
			ar := rand.New(rand.NewSource(seedsForArgs[t]))
			for _, op := range plans[t] {
				if rec, ok := doOp(t, op, ar); ok {
					recs[t] = append(recs[t], rec)
				}
			}
		}
	}
	sharedCost := &vmcommon.GasCost{}
	rejected := 0
	invalidAt := map[int]bool{}
	for i := 1; i <= K; i++ {
		if r.Intn(3) == 0 {
			invalidAt[i] = true
		}
	}
	tasks[nexec] = func() {
		for i := 1; i <= K; i++ {
			if invalidAt[i] {
				bad := schedule(90 + i)
				delete(bad[vmcommon.BuiltInCostString], "ESDTNFTCreate")
				fac.GasScheduleChange(bad) // rejected as a whole
				rejected++
			}
			c := change{start: simrt.Stamp()}
			if directReprice {
				// the host tells every function object itself, always through the same GasCost object,
				// which it overwrites as soon as a function has been told (each function must have
				// taken its own copy under its lock)
				keys := cont.Keys()
				names := make([]string, 0, len(keys))
				for n := range keys {
					names = append(names, n)
				}
				sort.Strings(names)
				for _, n := range names {
					if f, errGet := cont.Get(n); errGet == nil {
						fillCost(sharedCost, i)
						f.SetNewGasConfig(sharedCost)
						fillCost(sharedCost, -1)
					}
				}
			} else {
				fac.GasScheduleChange(schedule(i))
			}
			c.end = simrt.Stamp()
			changes = append(changes, c)
		}
	}
	epochEvents := 0
	epochPlan := make([]uint32, 1+r.Intn(5))
	for i := range epochPlan {
		epochPlan[i] = uint32(r.Intn(4))
	}
	tasks[nexec+1] = func() {
		for _, e := range epochPlan {
			for _, h := range not.handlers {
				h.EpochConfirmed(e, 0)
			}
			epochEvents++
			for _, n := range []string{"ESDTNFTAddURI", "MultiESDTNFTTransfer", "ESDTTransfer"} {
				if bf, err := cont.Get(n); err == nil {
					_ = bf.IsActive()
				}
			}
			_ = cont.Len()
			_ = cont.Keys()
		}
	}
	res := simrt.Run(uint64(seed), stay, tasks, replay, 5_000_000)
	rr := runResult{kind: "exec", res: res, reprices: len(changes), rejected: rejected, epochs: epochEvents,
		sample: fmt.Sprintf("exec workload: %d executing tasks, %d schedule changes (%d rejected ones interleaved), %d epoch notifications, stay probability %d%%", nexec, K, rejected, epochEvents, stay)}
	excluded := make([]bool, nexec)
	for t := 0; t < nexec; t++ {
		for _, rec := range recs[t] {
			rr.execCalls++
			rr.ops++
			if rec.expectErr {
				if rec.err == "" {
					rr.viol = append(rr.viol, Violation{Seed: seed, Kind: "forbidden-success", Detail: fmt.Sprintf("task %d: %s was accepted under concurrency although it must be refused (frozen entry or destination not payable): %s", t, rec.fn, rec.digest)})
					excluded[t] = true
				}
				continue
			}
			a, b := 0, 0
			for _, c := range changes {
				if c.end < rec.invoke {
					a++
				}
				if c.start < rec.ret {
					b++
				}
			}
			if rec.err != "" {
				if strings.Contains(rec.err, "not enough gas") && rec.gas < gasGiven {
					// a tight-gas call may be refused if a schedule in force during it prices it above the gas
					afford := true
					for k := a; k <= b; k++ {
						need := fcostOf(rec.fn, k)
						if rec.need != nil {
							need = rec.need(k)
						}
						if need > rec.gas {
							afford = false
						}
					}
					if !afford {
						excluded[t] = true // a legitimate refusal: the task's further course depends on the schedule
						continue
					}
				}
				rr.viol = append(rr.viol, Violation{Seed: seed, Kind: "exec-failed", Detail: fmt.Sprintf("task %d: %s failed under concurrency although it succeeds sequentially: %s", t, rec.fn, rec.err)})
				excluded[t] = true
				continue
			}
			if rec.created != "" {
				rr.viol = append(rr.viol, Violation{Seed: seed, Kind: "gas-created", Detail: fmt.Sprintf("task %d: %s admitted under one schedule and charged under another: %s", t, rec.fn, rec.created)})
				continue
			}
			if b > a {
				rr.overlaps++
			}
			ok := false
			var allowed []uint64
			for k := a; k <= b; k++ {
				c := rec.charge(k)
				allowed = append(allowed, c)
				if c == rec.observed {
					ok = true
				}
			}
			if !ok {
				rr.viol = append(rr.viol, Violation{Seed: seed, Kind: "mixed-charge", Detail: fmt.Sprintf("task %d: %s (steps %d-%d) was charged %d; the schedules in force between invoke and return (%d..%d) price it at %v: not wholly one schedule", t, rec.fn, rec.invoke, rec.ret, rec.observed, a, b, allowed)})
			}
		}
	}
	// isolation: every task worked on accounts and tokens of its own, so what it was told and what it
	// left behind must be what the same plan gives when it runs alone (same function objects, fresh
	// store, the last schedule, plenty of gas); gas numbers are not compared
	noTight = true
	for t := 0; t < nexec; t++ {
		if excluded[t] {
			continue
		}
		concStore, concState, concLast := acc.stores[t], ts[t], lastNFTLen[t]
		acc.stores[t] = &store{accts: map[string]*acct{}}
		ts[t] = initTask(t, acc.stores[t])
		acc.fallback = t
		tightGas[t], lastNFTLen[t] = 0, 0
		ar := rand.New(rand.NewSource(seedsForArgs[t]))
		var ref []execRec
		for _, op := range plans[t] {
			if rec, ok := doOp(t, op, ar); ok {
				ref = append(ref, rec)
			}
		}
		msg := ""
		if len(ref) != len(recs[t]) {
			msg = fmt.Sprintf("executed %d calls, alone %d", len(recs[t]), len(ref))
		}
		for i := 0; msg == "" && i < len(ref); i++ {
			a, b := recs[t][i], ref[i]
			switch {
			case a.fn != b.fn:
				msg = fmt.Sprintf("call %d is %s, alone %s", i, a.fn, b.fn)
			case a.expectErr && a.err != "" && b.err != "":
				// refused both times (which of two reasons to refuse is named may depend on the gas given)
			case a.err != b.err:
				msg = fmt.Sprintf("call %d (%s) ended with %q, alone with %q", i, a.fn, a.err, b.err)
			case a.digest != b.digest:
				msg = fmt.Sprintf("call %d (%s) returned %s, alone %s", i, a.fn, a.digest, b.digest)
			}
		}
		if msg == "" {
			msg = diffStores(concStore, acc.stores[t])
		}
		if msg != "" {
			rr.viol = append(rr.viol, Violation{Seed: seed, Kind: "not-isolated", Detail: fmt.Sprintf("task %d, whose accounts and tokens no other task touches, did not get what its plan gives when it runs alone: %s", t, msg)})
		}
		rr.isolated++
		acc.stores[t], ts[t], lastNFTLen[t] = concStore, concState, concLast
		tightGas[t] = 0
	}
	// after the join every function is priced by the last accepted schedule
	acc.fallback = 0
	if nexec > 0 {
		ar := rand.New(rand.NewSource(seed))
		for _, op := range []string{"skv", "create", "mint", "nfttransfer"} {
			rec, ok := doOp(0, op, ar)
			if !ok {
				continue
			}
			if rec.expectErr {
				continue
			}
			if rec.err != "" {
				rr.viol = append(rr.viol, Violation{Seed: seed, Kind: "exec-failed", Detail: fmt.Sprintf("final sequential %s failed: %s", rec.fn, rec.err)})
			} else if rec.charge(len(changes)) != rec.observed {
				rr.viol = append(rr.viol, Violation{Seed: seed, Kind: "stale-schedule", Detail: fmt.Sprintf("after all %d schedule changes completed %s is charged %d, the last accepted schedule prices it at %d", len(changes), rec.fn, rec.observed, rec.charge(len(changes)))})
			}
		}
	}
	return rr
}
