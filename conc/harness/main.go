// concrun is the harness of the concurrency engine. It is copied into the instrumented scratch copy
// (zz_sim/concrun) and drives four workload kinds under the deterministic scheduler:
//   map    - container.MutexMap / functionContainer operations, checked for linearizability (porcupine)
//   atomic - atomic.Flag/Counter/Int64/Uint32/Uint64/String operations, checked for linearizability
//   exec   - ProcessBuiltinFunction of priced functions on task-private accounts through one shared
//            container, concurrently with GasScheduleChange and EpochConfirmed: every execution must be
//            charged wholly by one schedule in force between its invoke and its return
//   parse  - (mode parse only, used by the check of C10) the transaction-data parsers shared by several tasks:
//            every report equals the report of a fresh parser when nothing else runs
// Built with -race the same seeds give the same schedules and the race detector reports unordered accesses.
package main

import (
	"encoding/json"
	"flag"
	"fmt"
	"math/rand"
	"os"
	"sort"
	"strings"
	"time"

	"github.com/anishathalye/porcupine"

	simrt "SIMRT_IMPORT"
)

// Violation is one finding of a run.
type Violation struct {
	Seed    int64   `json:"seed"`
	Kind    string  `json:"kind"`
	Detail  string  `json:"detail"`
	Choices []uint8 `json:"choices,omitempty"`
	Steps   uint64  `json:"steps"`
	Switches uint64 `json:"switches"`
	MinSwitches uint64 `json:"min_switches,omitempty"`
}

// Out is the aggregate of a worker.
type Out struct {
	Runs        int            `json:"runs"`
	Steps       uint64         `json:"steps"`
	Switches    uint64         `json:"switches"`
	Ops         int            `json:"ops"`
	Histories   int            `json:"histories"`
	Unknown     int            `json:"porcupine_unknown"`
	ByKind      map[string]int `json:"by_kind"`
	Schedules   []uint64       `json:"schedules"`
	Overlaps    int            `json:"exec_overlapping_reprice"`
	Isolated    int            `json:"tasks_compared_with_their_plan_run_alone"`
	ExecCalls   int            `json:"exec_calls"`
	Reprices    int            `json:"reprices"`
	Rejected    int            `json:"rejected_schedules"`
	EpochEvents int            `json:"epoch_events"`
	Violations  []Violation    `json:"violations,omitempty"`
	Samples     []string       `json:"samples,omitempty"`
	Hashes      map[string]uint64 `json:"hashes,omitempty"`
}

type runResult struct {
	kind      string
	ops       int
	histories int
	unknown   int
	viol      []Violation
	res       simrt.Result
	overlaps  int
	isolated  int
	execCalls int
	reprices  int
	rejected  int
	epochs    int
	sample    string
}

var curFile string
var curSeed int64
var curKind string

func main() {
	from := flag.Int64("from", 0, "first seed")
	to := flag.Int64("to", 0, "one past the last seed")
	out := flag.String("out", "", "result file")
	mode := flag.String("mode", "all", "all|map|atomic|exec|parse")
	replay := flag.String("replay", "", "replay file")
	hashes := flag.Bool("hashes", false, "record per-seed schedule hashes")
	flag.Parse()

	simrt.OnAbort = func(reason string) {
		// deadlock or step cap: record and leave (the parent turns it into a violation / trouble)
		r := simrt.Snapshot()
		v := Violation{Seed: curSeed, Kind: "deadlock", Detail: fmt.Sprintf("%s in workload %s after %d steps: every unfinished task waits for a lock", reason, curKind, r.Steps), Choices: r.Choices, Steps: r.Steps, Switches: r.Switches}
		b, _ := json.Marshal(v)
		_ = os.WriteFile(curFile+".abort", b, 0o644)
		if reason == "deadlock" {
			os.Exit(3)
		}
		os.Exit(4)
	}

	if *replay != "" {
		os.Exit(doReplay(*replay))
	}
	curFile = *out
	agg := &Out{ByKind: map[string]int{}, Hashes: map[string]uint64{}}
	scheds := map[uint64]struct{}{}
	for seed := *from; seed < *to; seed++ {
		curSeed = seed
		_ = os.WriteFile(curFile+".cur", []byte(fmt.Sprint(seed)), 0o644)
		rr := runSeed(seed, *mode, nil)
		agg.Runs++
		agg.Steps += rr.res.Steps
		agg.Switches += rr.res.Switches
		agg.Ops += rr.ops
		agg.Histories += rr.histories
		agg.Unknown += rr.unknown
		agg.ByKind[rr.kind]++
		agg.Overlaps += rr.overlaps
		agg.Isolated += rr.isolated
		agg.ExecCalls += rr.execCalls
		agg.Reprices += rr.reprices
		agg.Rejected += rr.rejected
		agg.EpochEvents += rr.epochs
		scheds[rr.res.SchedHash] = struct{}{}
		if *hashes {
			agg.Hashes[fmt.Sprint(seed)] = rr.res.SchedHash
		}
		if len(agg.Samples) < 3 && rr.sample != "" {
			agg.Samples = append(agg.Samples, rr.sample)
		}
		for _, v := range rr.viol {
			v.Choices = rr.res.Choices
			v.Steps, v.Switches = rr.res.Steps, rr.res.Switches
			if len(agg.Violations) < 5 {
				v.MinSwitches = minimiseSwitches(seed, *mode, v.Kind, rr.res.Choices)
				agg.Violations = append(agg.Violations, v)
			}
		}
	}
	for h := range scheds {
		agg.Schedules = append(agg.Schedules, h)
	}
	b, _ := json.Marshal(agg)
	if err := os.WriteFile(*out, b, 0o644); err != nil {
		fmt.Fprintln(os.Stderr, "cannot write result:", err)
		os.Exit(2)
	}
}

// ReplayFile is the on-disk form of a concurrency violation.
type ReplayFile struct {
	Property  string    `json:"property"`
	Seed      int64     `json:"seed"`
	From      int64     `json:"from"` // race reports depend on the detector's process history: replay the worker's seeds from here

	Mode      string    `json:"mode"`
	Race      bool      `json:"race"`
	Violation Violation `json:"violation"`
}

func doReplay(path string) int {
	b, err := os.ReadFile(path)
	if err != nil {
		fmt.Fprintln(os.Stderr, err)
		return 2
	}
	var rf ReplayFile
	if err := json.Unmarshal(b, &rf); err != nil {
		fmt.Fprintln(os.Stderr, err)
		return 2
	}
	curFile = path
	if rf.Race && rf.From > 0 && rf.From < rf.Seed {
		// same process history as the worker that reported the race (the schedule of every seed is
		// deterministic; what the detector still remembers depends on what ran before)
		for s := rf.From; s < rf.Seed; s++ {
			curSeed = s
			runSeed(s, rf.Mode, nil)
		}
	}
	curSeed = rf.Seed
	rr := runSeed(rf.Seed, rf.Mode, rf.Violation.Choices)
	fmt.Printf("replayed seed %d (%s): %d steps, %d switches, schedule hash %x\n", rf.Seed, rr.kind, rr.res.Steps, rr.res.Switches, rr.res.SchedHash)
	for _, v := range rr.viol {
		fmt.Printf("violation: %s: %s\n", v.Kind, v.Detail)
		if v.Kind == rf.Violation.Kind {
			fmt.Printf("VIOLATION property=%s replay=%s\n", rf.Property, path)
			return 1
		}
	}
	fmt.Println("the recorded violation does not occur (a recorded race is reported by the race-enabled binary)")
	return 0
}

// minimiseSwitches tries to remove context switches from a failing schedule ("stay" instead of
// switching) while the same violation kind persists; returns the number of switches left.
func minimiseSwitches(seed int64, mode, kind string, choices []uint8) uint64 {
	cur := append([]uint8{}, choices...)
	deadline := time.Now().Add(3 * time.Second)
	count := func(c []uint8) uint64 {
		n := uint64(0)
		for i := 1; i < len(c); i++ {
			if c[i] != c[i-1] {
				n++
			}
		}
		return n
	}
	fails := func(c []uint8) ([]uint8, bool) {
		rr := runSeed(seed, mode, c)
		for _, v := range rr.viol {
			if v.Kind == kind {
				return rr.res.Choices, true
			}
		}
		return nil, false
	}
	for attempts := 0; attempts < 200 && time.Now().Before(deadline); attempts++ {
		// pick a switch point and stay instead for a stretch
		var sw []int
		for i := 1; i < len(cur); i++ {
			if cur[i] != cur[i-1] {
				sw = append(sw, i)
			}
		}
		if len(sw) == 0 {
			break
		}
		i := sw[attempts%len(sw)]
		cand := append([]uint8{}, cur...)
		for j := i; j < len(cand) && j < i+1+attempts%7; j++ {
			cand[j] = cand[i-1]
		}
		if got, ok := fails(cand); ok && count(got) < count(cur) {
			cur = got
		}
	}
	return count(cur)
}

func runSeed(seed int64, mode string, replay []uint8) runResult {
	r := rand.New(rand.NewSource(seed))
	kinds := []string{"map", "container", "atomic", "exec", "exec"}
	kind := kinds[r.Intn(len(kinds))]
	switch mode {
	case "map":
		kind = []string{"map", "container"}[r.Intn(2)]
	case "atomic":
		kind = "atomic"
	case "exec":
		kind = "exec"
	case "parse":
		kind = "parse"
	}
	curKind = kind
	stay := []int{0, 30, 60, 85, 95}[r.Intn(5)]
	switch kind {
	case "map":
		return runMap(seed, r, stay, replay, false)
	case "container":
		return runMap(seed, r, stay, replay, true)
	case "atomic":
		return runAtomic(seed, r, stay, replay)
	case "parse":
		return runParse(seed, r, stay, replay)
	}
	return runExec(seed, r, stay, replay)
}

// ---------- porcupine helpers ----------

type opIn struct {
	Op  string
	Key string
	Val int64
	B   bool
	S   string
}

type opOut struct {
	Val  int64
	Ok   bool
	List string
	S    string
}

func checkHistory(model porcupine.Model, ops []porcupine.Operation) (string, bool) {
	res := porcupine.CheckOperationsTimeout(model, ops, 20*time.Second)
	switch res {
	case porcupine.Ok:
		return "", false
	case porcupine.Unknown:
		return "", true
	}
	sort.Slice(ops, func(i, j int) bool { return ops[i].Call < ops[j].Call })
	var sb strings.Builder
	for _, o := range ops {
		fmt.Fprintf(&sb, "[t%d %d-%d %+v -> %+v] ", o.ClientId, o.Call, o.Return, o.Input, o.Output)
	}
	return sb.String(), false
}

func describe(kind string, tasks int, ops int, stay int) string {
	return fmt.Sprintf("%s workload: %d tasks, %d operations, stay probability %d%%", kind, tasks, ops, stay)
}

func os_stderr() *os.File { return os.Stderr }
func exit2()              { os.Exit(2) }
