#!/usr/bin/env python3
# Driver of the concurrency engine: runs seeded batches of the instrumented harness in single-P
# worker processes (plain and race-enabled), turns race reports / deadlocks / oracle findings into
# replay files, confirms each by replay in a fresh process, writes the evidence file.
import json, os, subprocess, sys, time

scratch, tier, seed, nplain, nrace, sites, start = sys.argv[1], sys.argv[2], int(sys.argv[3]), int(sys.argv[4]), int(sys.argv[5]), sys.argv[6], float(sys.argv[7])
VERIF = os.environ.get("VERIF", "/verif")
KMODE = os.environ.get("CONC_MODE", "all")
PROP = os.environ.get("CONC_PROP", "C19")
WORKERS = 16
base = seed * 100_000_000

def launch(binary, a, b, tag, race):
    out = os.path.join(scratch, f"{tag}.json")
    env = dict(os.environ, GOMAXPROCS="1")
    if race:
        env["GORACE"] = f"halt_on_error=1 exitcode=66 log_path={out}.race"
    p = subprocess.Popen([binary, "-from", str(a), "-to", str(b), "-out", out, "-mode", KMODE], env=env, stdout=subprocess.DEVNULL, stderr=subprocess.PIPE)
    return {"p": p, "a": a, "b": b, "out": out, "tag": tag, "race": race, "bin": binary, "restarts": 0}

def batch(binary, n, race, off):
    per = (n + WORKERS - 1) // WORKERS
    jobs = []
    for i in range(WORKERS):
        a = base + off + i * per
        b = min(a + per, base + off + n)
        if a < b:
            jobs.append(launch(binary, a, b, f"{'r' if race else 'p'}{i}", race))
    return jobs

agg = {"runs": 0, "steps": 0, "switches": 0, "ops": 0, "histories": 0, "porcupine_unknown": 0, "by_kind": {}, "exec_overlapping_reprice": 0,
       "exec_calls": 0, "reprices": 0, "rejected_schedules": 0, "epoch_events": 0, "tasks_compared_with_their_plan_run_alone": 0}
schedules = set()
violations = []   # dicts: seed, kind, detail, race, choices
samples = []
trouble = None
race_runs = 0

def collect(job):
    global trouble, race_runs
    try:
        o = json.load(open(job["out"]))
    except Exception as e:
        trouble = f"worker {job['tag']} wrote no readable result: {e}"
        return
    for k in ("runs", "steps", "switches", "ops", "histories", "porcupine_unknown", "exec_overlapping_reprice", "exec_calls", "reprices", "rejected_schedules", "epoch_events", "tasks_compared_with_their_plan_run_alone"):
        agg[k] += o.get(k, 0)
    if job["race"]:
        race_runs += o.get("runs", 0)
    for k, v in (o.get("by_kind") or {}).items():
        agg["by_kind"][k] = agg["by_kind"].get(k, 0) + v
    for h in o.get("schedules") or []:
        if len(schedules) < 3_000_000:
            schedules.add(h)
    for v in o.get("violations") or []:
        v["race"] = job["race"]
        violations.append(v)
    for s in o.get("samples") or []:
        if len(samples) < 5:
            samples.append(s)

def wait_all(jobs):
    global trouble
    pending = list(jobs)
    while pending:
        job = pending.pop(0)
        _, err = job["p"].communicate()
        rc = job["p"].returncode
        if rc == 0:
            collect(job)
            continue
        cur = None
        try:
            cur = int(open(job["out"] + ".cur").read().strip())
        except Exception:
            pass
        if rc == 66 and cur is not None:
            report = ""
            for f in os.listdir(scratch):
                if f.startswith(os.path.basename(job["out"]) + ".race"):
                    report += open(os.path.join(scratch, f), errors="replace").read()
                    os.remove(os.path.join(scratch, f))
            lines = [l.strip() for l in report.splitlines() if l.strip()]
            keep = [l for l in lines if ("builtInFunctions/" in l or "container/" in l or "/atomic/" in l or "parsers/" in l or l.startswith("WARNING") or l.startswith("Previous") or l.startswith("Write at") or l.startswith("Read at"))][:14]
            violations.append({"seed": cur, "from": job["a"], "kind": "data-race", "detail": "race detector under the deterministic schedule: " + " | ".join(keep), "race": True, "choices": []})
        elif rc == 3 and cur is not None:
            try:
                v = json.load(open(job["out"] + ".abort"))
            except Exception:
                v = {"seed": cur, "kind": "deadlock", "detail": "deadlock", "choices": []}
            v["race"] = job["race"]
            violations.append(v)
        else:
            trouble = f"worker {job['tag']} exited {rc} at seed {cur}: {err.decode(errors='replace')[-400:]}"
            continue
        # carry on after the offending seed (bounded)
        if job["restarts"] < 3 and cur + 1 < job["b"]:
            nj = launch(job["bin"], cur + 1, job["b"], job["tag"] + "x", job["race"])
            nj["restarts"] = job["restarts"] + 1
            # account for the seeds the dead worker had finished
            agg["runs"] += cur - job["a"]
            pending.append(nj)

plain = batch(os.path.join(scratch, "concrun"), nplain, False, 0)
wait_all(plain)
racej = batch(os.path.join(scratch, "concrun-race"), nrace, True, 0)   # same seeds: same schedules, now under the race detector
wait_all(racej)

if trouble:
    print("HARNESS TROUBLE:", trouble, file=sys.stderr)
    sys.exit(2)

known = []
try:
    known = [k for k in json.load(open(os.path.join(VERIF, "known_findings.json")))["findings"] if k.get("property") == PROP and k.get("status") == "open"]
except Exception:
    pass

exit_code = 0
reported = set()
os.makedirs(os.path.join(VERIF, "replays"), exist_ok=True)
for v in sorted(violations, key=lambda v: len(v.get("choices") or [])):
    if v["kind"] in reported or len(reported) >= 4:
        continue
    reported.add(v["kind"])
    kf = next((k for k in known if k.get("match") and k["match"] in v["kind"] + " " + v["detail"]), None)
    if kf:
        print(f"KNOWN-FINDING: property={PROP} {kf['key']} ({kf['what']})")
        continue
    path = os.path.join(VERIF, "replays", f"{PROP}-seed{v['seed']}-{v['kind']}.json")
    rf = {"property": PROP, "engine": "conc", "seed": v["seed"], "from": v.get("from", v["seed"]), "mode": KMODE, "race": bool(v.get("race")) and v["kind"] == "data-race", "violation":
          {"seed": v["seed"], "kind": v["kind"], "detail": v["detail"], "choices": v.get("choices") or [], "steps": v.get("steps", 0), "switches": v.get("switches", 0), "min_switches": v.get("min_switches", 0)}}
    json.dump(rf, open(path, "w"))
    # confirm in a fresh process
    binary = os.path.join(scratch, "concrun-race" if rf["race"] else "concrun")
    env = dict(os.environ, GOMAXPROCS="1", GORACE="halt_on_error=1 exitcode=66")
    r = subprocess.run([binary, "-replay", path], env=env, capture_output=True)
    if r.returncode not in (1, 66, 3):
        print(f"HARNESS TROUBLE: violation {v['kind']} of seed {v['seed']} does not replay in a fresh process (rc={r.returncode})", file=sys.stderr)
        sys.exit(2)
    print(f"violation (seed {v['seed']}, {v.get('steps', '?')} steps, {v.get('switches', '?')} context switches, minimised to {v.get('min_switches', '?')}): {v['kind']}: {v['detail'][:1200]}")
    print(f"VIOLATION property={PROP} replay={path}")
    exit_code = 1

wall = time.time() - start
holes = []
if KMODE == "parse":
    if agg["by_kind"].get("parse", 0) == 0:
        holes.append("parse")
elif tier == "thorough" and exit_code == 0:
    for k in ("map", "container", "atomic", "exec"):
        if agg["by_kind"].get(k, 0) == 0:
            holes.append(k)
    if agg["exec_overlapping_reprice"] == 0:
        holes.append("execution overlapping a schedule change")
ev = {
    "property_id": PROP, "tier": tier, "seed": seed, "level": "exploration",
    "coverage": {
        "evaluations": agg["runs"],
        "distinct_nontrivial": len(schedules),
        "rule": "a case is one simulated run: a seeded workload (2-16 tasks of container/MutexMap operations, atomic operations, or built-in function executions overlapping schedule changes and epoch notifications) under one seeded schedule; distinct = distinct schedule hashes (FNV of the task chosen at every yield); non-trivial = at least two tasks interleave (every run has >= 2 tasks). The race-enabled batch re-runs a prefix of the same seeds (same schedules) under the race detector.",
        "samples": samples or ["no run completed"],
        "simulated_runs": agg["runs"], "race_detector_runs": race_runs,
        "scheduling_steps": agg["steps"], "context_switches": agg["switches"],
        "runs_per_hour": int(agg["runs"] / wall * 3600),
        "seeds": f"{base}..{base + nplain - 1}",
        "simulated_time": f"logical: {agg['steps']} scheduling steps (no wall-clock time exists in the code under test)",
        "yield_sites": int(sites or 0),
        "operations_in_histories": agg["ops"], "histories_checked_by_porcupine": agg["histories"], "porcupine_unknown_timeouts": agg["porcupine_unknown"],
        "workloads": agg["by_kind"],
        "exec_calls": agg["exec_calls"], "exec_calls_overlapping_a_schedule_change": agg["exec_overlapping_reprice"],
        "executing_tasks_compared_with_their_plan_run_alone": agg["tasks_compared_with_their_plan_run_alone"],
        "schedule_changes": agg["reprices"], "rejected_schedules_interleaved": agg["rejected_schedules"], "epoch_notifications": agg["epoch_events"],
        "faults_fired": {"context switch at statement granularity": agg["switches"], "rejected schedule offered concurrently": agg["rejected_schedules"]},
        "coverage_holes": holes,
        "real_vs_stub": "real (rewritten copy of the working tree): container, atomic, builtInFunctions (factory, container, all priced functions); real unmodified: data/esdt codec, check, mapstructure; stub: task-private account stores, coordinator, epoch notifier, payability",
    },
    "assumptions": [
        "interleavings are explored at statement granularity of the three rewritten packages, plus every lock and atomic operation; code inside the Go runtime and third-party packages (logger) runs atomically",
        "one task at a time changes the gas schedule (concurrent GasScheduleChange calls are not part of the property)",
        "a porcupine timeout (Unknown) is counted and never reported",
    ],
    "wall_s": wall, "violations": len(violations),
}
if KMODE == "parse":
    # the shared-parser workload is a second stage of another property's check: its figures are added
    # to the evidence file the first stage has just written
    path = os.path.join(VERIF, "evidence", PROP + ".json")
    try:
        first = json.load(open(path))
    except Exception as e:
        print(f"HARNESS TROUBLE: the first stage left no evidence file to extend: {e}", file=sys.stderr)
        sys.exit(2)
    c = ev["coverage"]
    first["coverage"]["shared_parser_stage"] = {
        "what": "2-8 tasks parse messages of a common pool through one shared instance of each transaction-data parser under the seeded statement-level scheduler (plain and race-enabled); every report must equal the report of a fresh instance when nothing else runs, inputs must be left unchanged",
        "simulated_runs": c["simulated_runs"], "race_detector_runs": c["race_detector_runs"], "parses_under_interleaving": agg["ops"],
        "scheduling_steps": c["scheduling_steps"], "context_switches": c["context_switches"], "distinct_schedules": len(schedules),
        "yield_sites": c["yield_sites"], "seeds": c["seeds"], "samples": samples, "violations": len(violations), "wall_s": wall,
    }
    first["wall_s"] = first.get("wall_s", 0) + wall
    first["violations"] = first.get("violations", 0) + len(violations)
    first.setdefault("assumptions", []).append("shared-parser stage: interleavings at statement granularity of package parsers; the codec and the standard library run atomically")
    json.dump(first, open(path, "w"), indent=1)
else:
    json.dump(ev, open(os.path.join(VERIF, "evidence", "C19.json"), "w"), indent=1)
print(f"{'shared-parser stage: ' if KMODE == 'parse' else ''}runs={agg['runs']} race-runs={race_runs} steps={agg['steps']} switches={agg['switches']} schedules={len(schedules)} exec-overlaps={agg['exec_overlapping_reprice']} unknown={agg['porcupine_unknown']} wall={wall:.1f}s")
if holes:
    print("COVERAGE HOLE (exit 2, not a violation):", holes, file=sys.stderr)
    sys.exit(2)
sys.exit(exit_code)
