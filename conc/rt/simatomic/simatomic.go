// Package simatomic is the drop-in replacement for "sync/atomic" in the instrumented packages:
// it yields before delegating to the real operation, so that a load-then-store "atomic" is split.
package simatomic

import (
	"sync/atomic"
	"unsafe"

	"SIMRT_IMPORT"
)

func y() { simrt.Yield(-5) }

func AddInt32(addr *int32, delta int32) int32       { y(); return atomic.AddInt32(addr, delta) }
func AddInt64(addr *int64, delta int64) int64       { y(); return atomic.AddInt64(addr, delta) }
func AddUint32(addr *uint32, delta uint32) uint32   { y(); return atomic.AddUint32(addr, delta) }
func AddUint64(addr *uint64, delta uint64) uint64   { y(); return atomic.AddUint64(addr, delta) }
func LoadInt32(addr *int32) int32                   { y(); return atomic.LoadInt32(addr) }
func LoadInt64(addr *int64) int64                   { y(); return atomic.LoadInt64(addr) }
func LoadUint32(addr *uint32) uint32                { y(); return atomic.LoadUint32(addr) }
func LoadUint64(addr *uint64) uint64                { y(); return atomic.LoadUint64(addr) }
func StoreInt32(addr *int32, val int32)             { y(); atomic.StoreInt32(addr, val) }
func StoreInt64(addr *int64, val int64)             { y(); atomic.StoreInt64(addr, val) }
func StoreUint32(addr *uint32, val uint32)          { y(); atomic.StoreUint32(addr, val) }
func StoreUint64(addr *uint64, val uint64)          { y(); atomic.StoreUint64(addr, val) }
func SwapInt32(addr *int32, new int32) int32        { y(); return atomic.SwapInt32(addr, new) }
func SwapInt64(addr *int64, new int64) int64        { y(); return atomic.SwapInt64(addr, new) }
func SwapUint32(addr *uint32, new uint32) uint32    { y(); return atomic.SwapUint32(addr, new) }
func SwapUint64(addr *uint64, new uint64) uint64    { y(); return atomic.SwapUint64(addr, new) }
func LoadPointer(addr *unsafe.Pointer) unsafe.Pointer { y(); return atomic.LoadPointer(addr) }
func StorePointer(addr *unsafe.Pointer, val unsafe.Pointer) { y(); atomic.StorePointer(addr, val) }
func CompareAndSwapInt32(addr *int32, old, new int32) bool {
	y()
	return atomic.CompareAndSwapInt32(addr, old, new)
}
func CompareAndSwapInt64(addr *int64, old, new int64) bool {
	y()
	return atomic.CompareAndSwapInt64(addr, old, new)
}
func CompareAndSwapUint32(addr *uint32, old, new uint32) bool {
	y()
	return atomic.CompareAndSwapUint32(addr, old, new)
}
func CompareAndSwapUint64(addr *uint64, old, new uint64) bool {
	y()
	return atomic.CompareAndSwapUint64(addr, old, new)
}

// Value wraps atomic.Value.
type Value struct{ v atomic.Value }

func (v *Value) Load() interface{}       { y(); return v.v.Load() }
func (v *Value) Store(val interface{})   { y(); v.v.Store(val) }
func (v *Value) Swap(n interface{}) interface{} { y(); return v.v.Swap(n) }
func (v *Value) CompareAndSwap(o, n interface{}) bool {
	y()
	return v.v.CompareAndSwap(o, n)
}

// Typed atomics (Go 1.19+) are passed through with a yield before each operation.
type Int64 struct{ v atomic.Int64 }

func (x *Int64) Load() int64           { y(); return x.v.Load() }
func (x *Int64) Store(val int64)       { y(); x.v.Store(val) }
func (x *Int64) Add(d int64) int64     { y(); return x.v.Add(d) }
func (x *Int64) Swap(n int64) int64    { y(); return x.v.Swap(n) }
func (x *Int64) CompareAndSwap(o, n int64) bool { y(); return x.v.CompareAndSwap(o, n) }

type Uint64 struct{ v atomic.Uint64 }

func (x *Uint64) Load() uint64          { y(); return x.v.Load() }
func (x *Uint64) Store(val uint64)      { y(); x.v.Store(val) }
func (x *Uint64) Add(d uint64) uint64   { y(); return x.v.Add(d) }
func (x *Uint64) Swap(n uint64) uint64  { y(); return x.v.Swap(n) }
func (x *Uint64) CompareAndSwap(o, n uint64) bool { y(); return x.v.CompareAndSwap(o, n) }

type Uint32 struct{ v atomic.Uint32 }

func (x *Uint32) Load() uint32          { y(); return x.v.Load() }
func (x *Uint32) Store(val uint32)      { y(); x.v.Store(val) }
func (x *Uint32) Add(d uint32) uint32   { y(); return x.v.Add(d) }
func (x *Uint32) Swap(n uint32) uint32  { y(); return x.v.Swap(n) }
func (x *Uint32) CompareAndSwap(o, n uint32) bool { y(); return x.v.CompareAndSwap(o, n) }

type Int32 struct{ v atomic.Int32 }

func (x *Int32) Load() int32           { y(); return x.v.Load() }
func (x *Int32) Store(val int32)       { y(); x.v.Store(val) }
func (x *Int32) Add(d int32) int32     { y(); return x.v.Add(d) }
func (x *Int32) Swap(n int32) int32    { y(); return x.v.Swap(n) }
func (x *Int32) CompareAndSwap(o, n int32) bool { y(); return x.v.CompareAndSwap(o, n) }

type Bool struct{ v atomic.Bool }

func (x *Bool) Load() bool          { y(); return x.v.Load() }
func (x *Bool) Store(val bool)      { y(); x.v.Store(val) }
func (x *Bool) Swap(n bool) bool    { y(); return x.v.Swap(n) }
func (x *Bool) CompareAndSwap(o, n bool) bool { y(); return x.v.CompareAndSwap(o, n) }

// Pointer mirrors atomic.Pointer[T].
type Pointer[T any] struct{ v atomic.Pointer[T] }

func (x *Pointer[T]) Load() *T                      { y(); return x.v.Load() }
func (x *Pointer[T]) Store(val *T)                  { y(); x.v.Store(val) }
func (x *Pointer[T]) Swap(n *T) *T                  { y(); return x.v.Swap(n) }
func (x *Pointer[T]) CompareAndSwap(o, n *T) bool   { y(); return x.v.CompareAndSwap(o, n) }

// Uintptr mirrors atomic.Uintptr.
type Uintptr struct{ v atomic.Uintptr }

func (x *Uintptr) Load() uintptr                    { y(); return x.v.Load() }
func (x *Uintptr) Store(val uintptr)                { y(); x.v.Store(val) }
func (x *Uintptr) Add(d uintptr) uintptr            { y(); return x.v.Add(d) }
func (x *Uintptr) Swap(n uintptr) uintptr           { y(); return x.v.Swap(n) }
func (x *Uintptr) CompareAndSwap(o, n uintptr) bool { y(); return x.v.CompareAndSwap(o, n) }

func AddUintptr(addr *uintptr, delta uintptr) uintptr { y(); return atomic.AddUintptr(addr, delta) }
func LoadUintptr(addr *uintptr) uintptr               { y(); return atomic.LoadUintptr(addr) }
func StoreUintptr(addr *uintptr, val uintptr)         { y(); atomic.StoreUintptr(addr, val) }
func SwapUintptr(addr *uintptr, new uintptr) uintptr  { y(); return atomic.SwapUintptr(addr, new) }
func CompareAndSwapUintptr(addr *uintptr, old, new uintptr) bool {
	y()
	return atomic.CompareAndSwapUintptr(addr, old, new)
}
func SwapPointer(addr *unsafe.Pointer, new unsafe.Pointer) unsafe.Pointer {
	y()
	return atomic.SwapPointer(addr, new)
}
func CompareAndSwapPointer(addr *unsafe.Pointer, old, new unsafe.Pointer) bool {
	y()
	return atomic.CompareAndSwapPointer(addr, old, new)
}
