// Package simrt is the deterministic task scheduler of the concurrency engine. Tasks are real
// goroutines of which exactly one is released at a time; at every yield point the scheduler draws
// the next task from the run's PRNG (or from a recorded choice list when replaying).
//
// All scheduler state is touched only inside //go:norace functions and the hand-off is a spin on
// a plain variable, so the race detector sees no happens-before edge created by the scheduler:
// under -race the same seed gives the same interleaving and the detector reports exactly the
// accesses that the code's own synchronisation fails to order.
package simrt

import (
	"fmt"
	"runtime"
	"sort"
	"sync"
)

// SortedKeys returns the keys of a map in a fixed order. The instrumenter rewrites every range
// over a map into a range over SortedKeys, so that Go's randomised iteration order cannot
// influence the schedule.
func SortedKeys[M ~map[K]V, K comparable, V any](m M) []K {
	keys := make([]K, 0, len(m))
	for k := range m {
		keys = append(keys, k)
	}
	sort.Slice(keys, func(i, j int) bool {
		return fmt.Sprintf("%T|%v", keys[i], keys[i]) < fmt.Sprintf("%T|%v", keys[j], keys[j])
	})
	return keys
}

const maxTasks = 64

const (
	stRunnable = iota
	stBlocked
	stDone
)

var (
	running   bool
	turn      int
	ntasks    int
	state     [maxTasks]int
	blockedAt [maxTasks]uint64 // unlock epoch at which the task blocked
	unlockEp  uint64
	rng       uint64
	stayPct   uint64
	steps     uint64
	stamp     uint64
	choices   []uint8
	replay    []uint8
	replayPos int
	deadlock  bool
	switches  uint64
	maxSteps  uint64
	overrun   bool
	schedHash uint64
	wg        sync.WaitGroup
)

//go:norace
func next64() uint64 {
	rng ^= rng >> 12
	rng ^= rng << 25
	rng ^= rng >> 27
	return rng * 2685821657736338717
}

// Current returns the id of the running task (-1 outside a simulation).
//
//go:norace
func Current() int {
	if !running {
		return -1
	}
	return turn
}

// Stamp returns a fresh global event sequence number (invoke/return stamps of histories).
//
//go:norace
func Stamp() int64 {
	stamp++
	return int64(stamp)
}

// Steps returns the number of scheduling steps so far.
//
//go:norace
func Steps() uint64 { return steps }

//go:norace
func pick(me int, meRunnable bool) int {
	// replay: follow the recorded choices
	if replay != nil {
		if replayPos < len(replay) {
			c := int(replay[replayPos])
			replayPos++
			if c < ntasks && (state[c] == stRunnable || (state[c] == stBlocked && blockedAt[c] != unlockEp)) {
				return c
			}
		}
	}
	var cand [maxTasks]int
	n := 0
	for i := 0; i < ntasks; i++ {
		if state[i] == stRunnable || (state[i] == stBlocked && blockedAt[i] != unlockEp) {
			cand[n] = i
			n++
		}
	}
	if n == 0 {
		return -1
	}
	if meRunnable && next64()%100 < stayPct {
		return me
	}
	return cand[next64()%uint64(n)]
}

//go:norace
func handOff(me int, meRunnable bool) {
	steps++
	if steps > maxSteps {
		overrun = true
	}
	nx := pick(me, meRunnable)
	if nx < 0 {
		// nobody can run: every unfinished task waits for a lock nobody will release
		deadlock = true
		OnAbort("deadlock")
		nx = me
	}
	if overrun {
		OnAbort("step cap exceeded")
	}
	choices = append(choices, uint8(nx))
	schedHash = (schedHash ^ uint64(nx+1)) * 1099511628211
	if nx != me {
		switches++
		turn = nx
	}
}

//go:norace
func myTurn(me int) bool { return turn == me }

//go:norace
func isRunning() bool { return running }

// Yield is called before every statement of the instrumented packages.
func Yield(site int) {
	if !isRunning() {
		return
	}
	me := Current()
	handOff(me, true)
	for !myTurn(me) {
		runtime.Gosched()
	}
}

// YieldBlocked is called by a task that found a lock taken: it is not chosen again until some
// lock has been released.
func YieldBlocked() {
	if !isRunning() {
		runtime.Gosched()
		return
	}
	me := Current()
	markBlocked(me)
	handOff(me, false)
	for !myTurn(me) {
		runtime.Gosched()
	}
	markRunnable(me)
}

//go:norace
func markBlocked(me int) {
	state[me] = stBlocked
	blockedAt[me] = unlockEp
}

//go:norace
func markRunnable(me int) { state[me] = stRunnable }

// Released is called after every unlock: blocked tasks become eligible again.
//
//go:norace
func Released() {
	unlockEp++
}

// OnAbort is called (and must not return) when the run cannot continue: "deadlock" or
// "step cap exceeded". The harness records the schedule and exits the process.
var OnAbort = func(reason string) { panic("simrt: " + reason) }

// Snapshot returns the schedule so far (for the abort hook).
//
//go:norace
func Snapshot() Result {
	r := Result{Steps: steps, Switches: switches, Deadlock: deadlock, Overrun: overrun, SchedHash: schedHash}
	r.Choices = append([]uint8{}, choices...)
	return r
}

//go:norace
func finish(me int) {
	state[me] = stDone
	steps++
	nx := pick(me, false)
	if nx < 0 {
		// either everybody is done, or the rest is deadlocked
		left := false
		for i := 0; i < ntasks; i++ {
			if state[i] != stDone {
				left = true
			}
		}
		if left {
			deadlock = true
			OnAbort("deadlock")
		}
		return
	}
	choices = append(choices, uint8(nx))
	schedHash = (schedHash ^ uint64(nx+1)) * 1099511628211
	switches++
	turn = nx
}

// Result describes one finished run.
type Result struct {
	Steps     uint64
	Switches  uint64
	Deadlock  bool
	Overrun   bool
	Choices   []uint8
	SchedHash uint64
}

//go:norace
func setup(seed uint64, stay int, n int, rep []uint8, cap uint64) {
	rng = seed*2862933555777941757 + 3037000493
	if rng == 0 {
		rng = 88172645463325252
	}
	stayPct = uint64(stay)
	ntasks = n
	steps, stamp, switches, unlockEp = 0, 0, 0, 0
	choices = choices[:0]
	replay = rep
	replayPos = 0
	deadlock, overrun = false, false
	maxSteps = cap
	schedHash = 14695981039346656037
	for i := 0; i < maxTasks; i++ {
		state[i] = stDone
		blockedAt[i] = 0
	}
	for i := 0; i < n; i++ {
		state[i] = stRunnable
	}
	turn = int(next64() % uint64(n))
	running = true
}

//go:norace
func teardown() Result {
	running = false
	r := Result{Steps: steps, Switches: switches, Deadlock: deadlock, Overrun: overrun, SchedHash: schedHash}
	r.Choices = append([]uint8{}, choices...)
	return r
}

// Run executes the tasks under the deterministic scheduler. replayChoices, when non-nil, is the
// recorded schedule to follow. The only real synchronisation added is goroutine start and one
// WaitGroup join at the end.
func Run(seed uint64, stayPercent int, tasks []func(), replayChoices []uint8, stepCap uint64) Result {
	if len(tasks) > maxTasks {
		panic("simrt: too many tasks")
	}
	setup(seed, stayPercent, len(tasks), replayChoices, stepCap)
	wg.Add(len(tasks))
	for i, f := range tasks {
		i, f := i, f
		go func() {
			defer wg.Done()
			for !myTurn(i) {
				runtime.Gosched()
			}
			f()
			finish(i)
		}()
	}
	wg.Wait()
	return teardown()
}
