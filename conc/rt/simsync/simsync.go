// Package simsync is the drop-in replacement for "sync" in the instrumented packages: the real
// primitives, acquired through TryLock so that a task that cannot proceed is simply not chosen.
package simsync

import (
	"sync"

	"SIMRT_IMPORT"
)

// Mutex wraps sync.Mutex.
type Mutex struct{ mu sync.Mutex }

func (m *Mutex) Lock() {
	simrt.Yield(-1)
	for !m.mu.TryLock() {
		simrt.YieldBlocked()
	}
}
func (m *Mutex) Unlock() {
	m.mu.Unlock()
	simrt.Released()
	simrt.Yield(-2)
}
func (m *Mutex) TryLock() bool { return m.mu.TryLock() }

// RWMutex wraps sync.RWMutex.
type RWMutex struct{ mu sync.RWMutex }

func (m *RWMutex) Lock() {
	simrt.Yield(-1)
	for !m.mu.TryLock() {
		simrt.YieldBlocked()
	}
}
func (m *RWMutex) Unlock() {
	m.mu.Unlock()
	simrt.Released()
	simrt.Yield(-2)
}
func (m *RWMutex) RLock() {
	simrt.Yield(-3)
	for !m.mu.TryRLock() {
		simrt.YieldBlocked()
	}
}
func (m *RWMutex) RUnlock() {
	m.mu.RUnlock()
	simrt.Released()
	simrt.Yield(-4)
}
func (m *RWMutex) TryLock() bool  { return m.mu.TryLock() }
func (m *RWMutex) TryRLock() bool { return m.mu.TryRLock() }

// The remaining names are passed through unchanged.
type (
	WaitGroup = sync.WaitGroup
	Once      = sync.Once
	Map       = sync.Map
	Pool      = sync.Pool
	Cond      = sync.Cond
	Locker    = sync.Locker
)

func NewCond(l Locker) *Cond { return sync.NewCond(l) }
