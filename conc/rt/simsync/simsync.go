// Package simsync is the drop-in replacement for "sync" in the instrumented packages: the real
// primitives, acquired through TryLock so that a task that cannot proceed is simply not chosen.
package simsync

import (
	"sync"

	"SIMRT_IMPORT"
)

// Mutex wraps sync.Mutex.
type Mutex struct{ mu sync.Mutex }

func (m *Mutex) Lock() {
	simrt.Yield(-1)
	for !m.mu.TryLock() {
		simrt.YieldBlocked()
	}
}
func (m *Mutex) Unlock() {
	m.mu.Unlock()
	simrt.Released()
	simrt.Yield(-2)
}
func (m *Mutex) TryLock() bool { return m.mu.TryLock() }

// RWMutex wraps sync.RWMutex and models its writer preference: once a writer has asked for the
// lock, new readers wait (also a reader that already holds a read lock and asks again: the nested
// read lock deadlock of the real type). The pending-writer count is scheduler state: it is touched
// only inside //go:norace functions, so it creates no happens-before edge.
type RWMutex struct {
	mu      sync.RWMutex
	pending int
}

//go:norace
func (m *RWMutex) addPending(d int) { m.pending += d }

//go:norace
func (m *RWMutex) writerPending() bool { return m.pending > 0 }

func (m *RWMutex) Lock() {
	simrt.Yield(-1)
	m.addPending(1)
	for !m.mu.TryLock() {
		simrt.YieldBlocked()
	}
	m.addPending(-1)
	simrt.Released() // readers that waited for the pending writer are looked at again (and find the lock held)
}
func (m *RWMutex) Unlock() {
	m.mu.Unlock()
	simrt.Released()
	simrt.Yield(-2)
}
func (m *RWMutex) RLock() {
	simrt.Yield(-3)
	for m.writerPending() || !m.mu.TryRLock() {
		simrt.YieldBlocked()
	}
}
func (m *RWMutex) RUnlock() {
	m.mu.RUnlock()
	simrt.Released()
	simrt.Yield(-4)
}
func (m *RWMutex) TryLock() bool  { return m.mu.TryLock() }
func (m *RWMutex) TryRLock() bool { return !m.writerPending() && m.mu.TryRLock() }

// The remaining names are passed through unchanged.
type (
	WaitGroup = sync.WaitGroup
	Once      = sync.Once
	Map       = sync.Map
	Pool      = sync.Pool
	Cond      = sync.Cond
	Locker    = sync.Locker
)

func NewCond(l Locker) *Cond { return sync.NewCond(l) }

// OnceFunc, OnceValue and OnceValues are passed through.
func OnceFunc(f func()) func()                                   { return sync.OnceFunc(f) }
func OnceValue[T any](f func() T) func() T                       { return sync.OnceValue(f) }
func OnceValues[T1, T2 any](f func() (T1, T2)) func() (T1, T2)   { return sync.OnceValues(f) }
