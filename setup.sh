#!/bin/bash
# Builds the framework from files on disk only (offline).
set -e
export GOFLAGS=-mod=mod GOPROXY=off GOSUMDB=off GOTOOLCHAIN=local
mkdir -p /verif/bin /verif/evidence /verif/replays
cd /verif/sim
go build -o /verif/bin/vcheck ./cmd/vcheck
if [ -d /verif/conc ] && [ -f /verif/conc/setup.sh ]; then /verif/conc/setup.sh; fi
echo setup ok
