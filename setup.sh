#!/bin/bash
# Builds the framework from files on disk only (offline).
set -e
export GOFLAGS=-mod=mod GOPROXY=off GOSUMDB=off GOTOOLCHAIN=local
VERIF=$(dirname "$(readlink -f "$0")")
mkdir -p $VERIF/bin $VERIF/evidence $VERIF/replays
cd $VERIF/sim
go build -o $VERIF/bin/vcheck ./cmd/vcheck
(cd $VERIF/conc/instrument && go build -o $VERIF/bin/instrument .)
echo setup ok
